"""C11 - every MDIB lookup always agrees with a scan of the stored objects.

spec:   specs/MultiKey.tla  (operational table model, invariant Agree, action property RejectIsNoop)
         specs/Mdib.tla + MdibTrace.tla / MirrorTrace.tla for the tables inside a provider / consumer MDIB
binding: TLC behaviours (exhaustive tree of depth D + simulation) are replayed on the real
         MultiKeyLookup (generic table) and on the real MDIB tables (DescriptorsLookup, StatesLookup,
         MultiStatesLookup) holding real containers; the complete table projection after each call is
         judged by TLC (MultiKeyTrace.tla).
"""
from __future__ import annotations

import itertools

from verif import tracecheck
from verif.tlc import MachineryError, json_lines, run_tlc

KEYS = ['k1', 'k2']
ALLKEYS = [*KEYS, 'None']


def _val(v):
    return None if v == 'None' else v


def _with_repeats(keys, adaptor):
    """Concrete list for an abstract SET of keys: every second time a key is named twice (a list member such as
    pm:Source has no uniqueness constraint; the set of keys, and therefore every lookup, is the same)."""
    keys = list(keys)
    adaptor.n_set = getattr(adaptor, 'n_set', 0) + 1
    if keys and keys != ['NA'] and adaptor.n_set % 2 == 0:
        keys = keys + [keys[0]] if adaptor.n_set % 4 == 0 else [keys[-1]] + keys
    return keys


# --------------------------------------------------------------------------- adaptors
class GenericTable:
    """sdc11073.multikey.MultiKeyLookup with the four index kinds over plain python objects."""

    indices = ('by_u', 'by_g', 'by_c', 'by_m')
    cfg_doms = ('GenCDom', 'GenMDom')

    class Obj:
        def __init__(self, name):
            self.name = name

        def __repr__(self):
            return self.name

    def __init__(self):
        from sdc11073 import multikey
        self.t = multikey.MultiKeyLookup()
        self.t.add_index('by_u', multikey.UIndexDefinition(lambda o: o.u))
        self.t.add_index('by_g', multikey.IndexDefinition(lambda o: o.g))
        self.t.add_index('by_c', multikey.IndexDefinition(lambda o: o.c, index_none_values=False))
        self.t.add_index('by_m', multikey.IndexDefinition1n(lambda o: o.m, index_none_values=False))
        self.o = {}

    def create(self, name, a):
        self.o[name] = self.Obj(name)
        self.set_attr(name, a)

    def set_attr(self, name, a):
        ob = self.o[name]
        ob.u, ob.g, ob.c = a['u'], _val(a['g']), _val(a['c'])
        ob.m = None if a['m'] == ['None'] else _with_repeats(a['m'], self)

    def attr(self, name):
        ob = self.o[name]
        return {'u': ob.u, 'g': 'None' if ob.g is None else ob.g, 'c': 'None' if ob.c is None else ob.c,
                'm': ['None'] if ob.m is None else sorted(set(ob.m))}

    def index(self, iname):
        return getattr(self.t, iname)

    def name_of(self, obj):
        return obj.name


class _MdibTable:
    """Base for adaptors over the real MDIB tables with real containers."""

    real_index = {}  # abstract index name -> real index name

    def __init__(self):
        import sdc11073.definitions_sdc  # noqa: F401  (registers the protocol)
        self.o = {}
        self.names = {}

    def index(self, iname):
        return getattr(self.t, self.real_index[iname])

    def name_of(self, obj):
        return self.names[id(obj)]


class DescriptorTable(_MdibTable):
    indices = ('by_u', 'by_g', 'by_c', 'by_m')
    real_index = {'by_u': 'handle', 'by_g': 'parent_handle', 'by_c': 'condition_signaled', 'by_m': 'source'}
    cfg_doms = ('McCDom', 'DescMDom')

    def __init__(self):
        super().__init__()
        from sdc11073.mdib.mdibbase import DescriptorsLookup
        self.t = DescriptorsLookup()

    def create(self, name, a):
        from sdc11073.mdib import descriptorcontainers as dc
        cls = dc.AlertConditionDescriptorContainer if name == 'o3' else dc.AlertSignalDescriptorContainer
        ob = cls(handle=a['u'], parent_handle=_val(a['g']))
        self.o[name] = ob
        self.names[id(ob)] = name
        self.set_attr(name, a)

    def set_attr(self, name, a):
        ob = self.o[name]
        ob.Handle = a['u']
        ob.parent_handle = _val(a['g'])
        if name == 'o3':
            ob.Source = _with_repeats(a['m'], self)
        else:
            ob.ConditionSignaled = _val(a['c'])

    def attr(self, name):
        ob = self.o[name]
        d = {'u': ob.Handle, 'g': 'None' if ob.parent_handle is None else ob.parent_handle}
        if name == 'o3':
            d['c'] = 'NA'
            d['m'] = sorted(set(ob.Source))
        else:
            d['c'] = 'None' if ob.ConditionSignaled is None else ob.ConditionSignaled
            d['m'] = ['NA']
        return d


class ContextStateTable(_MdibTable):
    indices = ('by_u', 'by_g')
    real_index = {'by_u': 'handle', 'by_g': 'descriptor_handle'}
    cfg_doms = ('NaCDom', 'NaMDom')

    def __init__(self):
        super().__init__()
        from sdc11073.mdib.mdibbase import MultiStatesLookup
        self.t = MultiStatesLookup()

    def create(self, name, a):
        from sdc11073.mdib import descriptorcontainers as dc
        from sdc11073.mdib import statecontainers as sc
        descr = dc.PatientContextDescriptorContainer(handle='d', parent_handle='p')
        ob = sc.PatientContextStateContainer(descr)
        self.o[name] = ob
        self.names[id(ob)] = name
        self.set_attr(name, a)

    def set_attr(self, name, a):
        ob = self.o[name]
        ob.Handle = a['u']
        ob.DescriptorHandle = _val(a['g'])

    def attr(self, name):
        ob = self.o[name]
        return {'u': ob.Handle, 'g': 'None' if ob.DescriptorHandle is None else ob.DescriptorHandle,
                'c': 'NA', 'm': ['NA']}


class SingleStateTable(_MdibTable):
    indices = ('by_u',)
    real_index = {'by_u': 'descriptor_handle'}
    cfg_doms = ('NaCDom', 'NaMDom')

    def __init__(self):
        super().__init__()
        from sdc11073.mdib.mdibbase import StatesLookup
        self.t = StatesLookup()
        self._g = {}

    def create(self, name, a):
        from sdc11073.mdib import descriptorcontainers as dc
        from sdc11073.mdib import statecontainers as sc
        descr = dc.NumericMetricDescriptorContainer(handle='d', parent_handle='p')
        ob = sc.NumericMetricStateContainer(descr)
        self.o[name] = ob
        self.names[id(ob)] = name
        self.set_attr(name, a)

    def set_attr(self, name, a):
        self.o[name].DescriptorHandle = a['u']
        self._g[name] = a['g']  # attribute g has no meaning for this table; kept to echo the model

    def attr(self, name):
        return {'u': self.o[name].DescriptorHandle, 'g': self._g[name], 'c': 'NA', 'm': ['NA']}


TABLES = {'generic': GenericTable, 'descriptors': DescriptorTable, 'context_states': ContextStateTable,
          'single_states': SingleStateTable}


def project(ad) -> dict:
    """Complete table projection: stored objects, their *current* attributes, and the indices as stored."""
    objs = sorted(ad.name_of(o) for o in ad.t.objects)
    idx = {}
    for iname in ad.indices:
        real = ad.index(iname)
        d = {k: [] for k in ALLKEYS}
        for key, lst in dict.items(real):
            k = 'None' if key is None else key
            names = sorted(ad.name_of(o) for o in lst)
            if names or k in d:
                d[k] = names
        idx[iname] = d
    return {'objs': objs, 'attr': {n: ad.attr(n) for n in sorted(ad.o)}, 'idx': idx}


def replay(table_kind: str, beh: dict, variant: int) -> list[dict]:
    """Execute one TLC behaviour on a real table; return the recorded trace."""
    ad = TABLES[table_kind]()
    for name, a in beh[0]['a'].items():
        ad.create(name, a)
    trace = [{'act': 'Init', 'res': 'ok', 'post': project(ad)}]
    for i, op in enumerate(beh[1:]):
        v = (variant + i) % 3
        rec = {'act': op['act'], 'res': 'ok'}
        try:
            if op['act'] == 'Add':
                rec['o'] = op['o']
                ob = ad.o[op['o']]
                (ad.t.add_object, ad.t.add_object_no_lock, lambda x: ad.t.add_objects([x]))[v](ob)
            elif op['act'] == 'Remove':
                rec['o'] = op['o']
                ob = ad.o[op['o']]
                (ad.t.remove_object, ad.t.remove_object_no_lock, lambda x: ad.t.remove_objects([x]))[v](ob)
            elif op['act'] == 'Update':
                rec['o'] = op['o']
                rec['a'] = op['a']
                ad.set_attr(op['o'], op['a'])
                ob = ad.o[op['o']]
                if ob in ad.t.objects:
                    (ad.t.update_object, ad.t.update_object_no_lock, lambda x: ad.t.update_objects([x]))[v](ob)
            elif op['act'] == 'Clear':
                ad.t.clear()
            else:
                raise MachineryError(f'unmodelled action {op}')
        except KeyError:
            rec['res'] = 'rejected'
        except MachineryError:
            raise
        except Exception as ex:  # noqa: BLE001
            rec['res'] = f'exc:{type(ex).__name__}'
        rec['post'] = project(ad)
        trace.append(rec)
    return trace


def _cfg(run, name, base, cdom, mdom, indices, maxops, extra_lines='', spec=None):
    import os
    from verif.tlc import SPEC_DIR
    txt = open(os.path.join(SPEC_DIR, base)).read()
    idx = '{' + ', '.join(f'"{i}"' for i in indices) + '}'
    out = []
    for line in txt.splitlines():
        s = line.strip()
        if s.startswith('SPECIFICATION') and spec:
            line = f'SPECIFICATION {spec}'
        elif s.startswith('CDom'):
            line = f'  CDom <- {cdom}'
        elif s.startswith('MDom'):
            line = f'  MDom <- {mdom}'
        elif s.startswith('Indices'):
            line = f'  Indices = {idx}'
        elif s.startswith('MaxOps'):
            line = f'  MaxOps = {maxops}'
        out.append(line)
    path = os.path.join(SPEC_DIR, f'_gen_{name}.cfg')
    with open(path, 'w') as f:
        f.write('\n'.join(out) + '\n' + extra_lines)
    return os.path.basename(path)


def behaviours(run, kind, num, depth, seed):
    cls = TABLES[kind]
    cfg = _cfg(run, f'mk_sim_{kind}', 'MultiKey_sim.cfg', cls.cfg_doms[0], cls.cfg_doms[1], cls.indices, depth)
    res = run_tlc('MultiKeyMC', cfg, workers=1, simulate=f'num={num}', depth=depth + 1, seed=seed)
    run.add_tlc(res)
    behs = json_lines(res.stdout, 'BEH')
    if len(behs) < num:
        raise MachineryError(f'expected {num} behaviours from TLC, got {len(behs)}')
    return behs


def tree_behaviours(run, kind, depth):
    """All behaviours of exactly `depth` operations (exhaustive tree; history is part of the state)."""
    cls = TABLES[kind]
    cfg = _cfg(run, f'mk_tree_{kind}', 'MultiKey_sim.cfg', cls.cfg_doms[0], cls.cfg_doms[1], cls.indices, depth,
               spec='TreeSpec')
    res = run_tlc('MultiKeyMC', cfg, workers=1, timeout=3000)
    run.add_tlc(res)
    return json_lines(res.stdout, 'BEH')


LOOKUPS = ['get', 'getitem', 'get_one', 'type_get']


def concurrent_lookups(run):
    """Lookups racing with a re-indexing update of the same object, on real threads: the states table of a real MDIB,
    its lock traced, one more scheduling point between un-filing and re-filing inside update_object.  Threads.tla
    enumerates every interleaving; each is executed; MultiKeyConcTrace judges what the lookups returned."""
    import threading

    from verif.mdibharness import load_mdib, table_agrees
    from verif.sched import Scheduler, TracedLock
    from verif.threads_engine import _SchedRef, enumerate_schedules
    ref = _SchedRef(Scheduler(record_only=True))
    handle = 'numeric.ch0.vmd0'

    class SnapLock(TracedLock):
        """The lookups hand out the lists the index stores; a later update changes them in place.  What a lookup
        returned is therefore copied where it returns: still inside its locked section (hook before the release) -
        or, for a lookup that takes no lock, right after the call."""
        hooks = {}

        def release(self):
            me = threading.get_ident()
            if self._depth.get(me, 0) == 1 and me in self.hooks:
                self.hooks[me]()
            return super().release()

    def mk():
        mdib = load_mdib()
        table = mdib.states
        traced = SnapLock(table._lock, 'tab', ref)     # noqa: SLF001
        traced.hooks = {}
        table._lock = traced                           # noqa: SLF001
        for idx in table._idx_defs.values():           # noqa: SLF001
            idx.set_lock(traced)
        orig_mk = table._mk_indices                    # noqa: SLF001

        def mk_indices(obj):
            ref.point('step', 'tab')                   # un-filed, not yet re-filed
            return orig_mk(obj)
        table._mk_indices = mk_indices                 # noqa: SLF001
        st = table.descriptor_handle.get_one(handle)
        out = {'lookups': [], 'errors': []}

        def scan(pred):
            return sorted(id(o) for o in list(table._objects) if pred(o))   # noqa: SLF001

        def writer():
            ref.point('step', 'none')
            try:
                st.StateVersion += 1
                table.update_object(st)
            except Exception as ex:  # noqa: BLE001
                out['errors'].append(type(ex).__name__)

        def reader(kind):
            def fn():
                ref.point('step', 'none')
                exc, got, inside = '', [], []
                idx = table.NODETYPE if kind == 'type_get' else table.descriptor_handle
                key = st.NODETYPE if kind == 'type_get' else handle
                # (dict.get on the index itself: what the index holds for the key at this instant)
                traced.hooks[threading.get_ident()] = lambda: inside.append(list(dict.get(idx, key) or []))
                try:
                    if kind in ('get', 'type_get'):
                        got = list(idx.get(key) or [])
                    elif kind == 'getitem':
                        got = list(idx[key])
                    else:
                        got = [idx.get_one(key)]
                except Exception as ex:  # noqa: BLE001
                    exc = type(ex).__name__
                finally:
                    traced.hooks.pop(threading.get_ident(), None)
                if inside and not exc:
                    got = inside[-1]
                pred = (lambda o: o.NODETYPE == st.NODETYPE) if kind == 'type_get' else (lambda o: o.DescriptorHandle == handle)
                out['lookups'].append({'what': kind, 'exc': exc, 'got': sorted(id(o) for o in got), 'scan': scan(pred)})
            return fn
        return mdib, table, writer, reader, out, table_agrees

    traces = []
    scenarios = [(k,) for k in LOOKUPS] + [('get', 'type_get')]
    for si, kinds in enumerate(scenarios):
        programs = {}
        for tid in range(1, 2 + len(kinds)):
            _m, _t, writer, reader, _o, _a = mk()
            fn = writer if tid == 1 else reader(kinds[tid - 2])
            ref.s = Scheduler(record_only=True)
            ref.s.run_free(tid, fn)
            programs[tid] = list(ref.s.programs[tid])
        run.note(f'lookup_thread_programs_{si}', {str(t): [f"{e['op']}:{e['lock']}" for e in p] for t, p in programs.items()})
        scheds = enumerate_schedules(run, f'c11look_{si}', programs, sorted(programs), limit=None, seed=run.seed + si)
        run.count('lookup_schedules', len(scheds))
        recs = [{'act': 'Init'}]
        for sc in scheds:
            _m, table, writer, reader, out, agrees = mk()
            fns = {1: writer}
            for k, kind in enumerate(kinds):
                fns[2 + k] = reader(kind)
            s = Scheduler()
            ref.s = s
            threads = {tid: s.spawn(tid, fn) for tid, fn in fns.items()}
            try:
                for tid in sc['sched']:
                    s.grant(tid)
                for tid in threads:
                    s.wait_parked_or_finished(tid)
                    if tid not in s.finished:
                        raise MachineryError(f'lookup thread {tid} still has events after the schedule ended')
            finally:
                with s.cv:
                    s.failed = s.failed or 'run over'
                    s.cv.notify_all()
            for th in threads.values():
                th.join(timeout=5)
            ref.s = Scheduler(record_only=True)
            out['errors'] += [f'thread {t}: {type(e).__name__}' for t, e in sorted(getattr(s, 'errors', {}).items())]
            recs.append({'act': 'Race', 'kinds': list(kinds), 'schedule': list(sc['sched']), 'lookups': out['lookups'],
                         'errors': out['errors'], 'agree': bool(agrees(table))})
            run.distinct_traces.add(('lookups', kinds, tuple(sc['sched'])))
        traces.append(recs)
    rejects = tracecheck.validate(run, 'MultiKeyConcTrace', 'MultiKeyConcTrace.cfg', traces)
    for (ti, li, clause) in tracecheck.first_rejects(rejects):
        rec = traces[ti][li]
        descr = {'check': 'table', 'table': 'states', 'act': 'Race', 'clause': clause}
        if run.is_known(descr):
            continue
        run.violation(descr, f'{clause}: lookups {rec["kinds"]} racing with update_object under schedule {rec["schedule"]}: '
                             f'{[(x["what"], x["exc"], len(x["got"]), len(x["scan"])) for x in rec["lookups"]]}',
                      {'trace': traces[ti], 'failing_record': li})


def check(run, replay_path=None):
    import os
    concurrent_lookups(run)
    from verif.tlc import SPEC_DIR
    # 1. design: exhaustive model check (3 objects, 2 keys, all attribute vectors)
    res = run_tlc('MultiKeyMC', 'MultiKey_mc.cfg', coverage=True)
    run.add_tlc(res, ['Add', 'AddRejected', 'AddAgain', 'Remove', 'RemoveAbsent', 'Update', 'UpdateRejected', 'Clear'])
    run.note('exhaustive', True)
    run.note('model_constants', {'O': 3, 'K': 2, 'indices': 4})

    # 2. spec -> code -> spec: behaviours replayed on the real tables, judged by TLC
    n_sim = run.pick(400, 6000)
    depth = run.pick(10, 14)
    tree_depth = run.pick(2, 3)
    per_table = {}
    for ti, kind in enumerate(TABLES):
        behs = behaviours(run, kind, n_sim, depth, run.seed + ti)
        if kind in ('generic', 'descriptors'):
            behs += tree_behaviours(run, kind, tree_depth)
        traces = [replay(kind, b, i) for i, b in enumerate(behs)]
        cls = TABLES[kind]
        cfg = _cfg(run, f'mk_trace_{kind}', 'MultiKeyTrace.cfg', 'TraceCDom', 'TraceMDom', cls.indices, 0)
        rejects = tracecheck.validate(run, 'MultiKeyTrace', cfg, traces)
        per_table[kind] = {'behaviours': len(behs), 'rejected_steps': len(rejects)}
        for t in traces:
            sig = (kind, tuple((r['act'], r.get('o'), r['res']) for r in t))
            if any(r['act'] != 'Init' for r in t):
                run.distinct_traces.add(sig)
        if ti == 0:
            run.sample({'table': kind, 'trace': traces[0][:4]})
        for (ti_, li, clause) in tracecheck.first_rejects(rejects):
            rec = traces[ti_][li]
            descr = {'check': 'table', 'table': kind, 'act': rec['act'], 'res': rec['res'], 'clause': clause.split(':')[0]}
            run.violation(descr, f'{kind} table: {rec["act"]}({rec.get("o")}) -> {rec["res"]}: clause {clause} fails',
                          {'table': kind, 'behaviour': behs[ti_], 'trace': traces[ti_], 'failing_record': li})
    run.note('per_table', per_table)

    # 3. the tables inside the MDIB: every transaction (provider) and every incoming report (consumer) that changes an
    #    indexed attribute (parent, Source, ConditionSignaled, handles) - behaviours of Mdib.tla chosen by situation
    #    cover, replayed on a real ProviderMdib and on a real provider + consumer pair; clauses lookups_agree
    #    (MdibTrace) and consumer_lookups_agree (MirrorTrace)
    from verif.checks import mdibcommon, mirrorcommon
    # (covered: the situations of descriptor transactions - they change indexed attributes - and of kept entities)
    mdibcommon.run_family(run, 'C11', with_model=False, lifecycle=False, num=run.pick(100, 3000), fold=1,
                          prefixes=('D:', 'K:', 'I:', 'T:descriptor'))
    mirrorcommon.run_family(run, 'C11', run.pick(40, 1500), [dict(), dict(async_mgr=True)], seed_offset=7,
                            prefixes=('D:',))
    # ... and incoming reports under faults: a description report whose later part is rejected (create of a handle the
    # consumer still has because the delete report was lost) after an earlier part changed an indexed attribute
    from verif.checks import c06
    c06.fault_family(run, family={'lookups_agree'}, num=run.pick(12, 600), with_model=False, seed_offset=11,
                     prefixes=lambda x: x.startswith('R:descr') and ('crt-existing' in x or 'with-update-part' in x))
    for name in os.listdir(SPEC_DIR):
        if name.startswith('_gen_mk_'):
            os.remove(os.path.join(SPEC_DIR, name))
    run.assumptions += ['attribute domain: 2 key values + None; 3 objects',
                        'the unique key of a stored object is only moved to a free key (API precondition)']
