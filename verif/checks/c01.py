"""C01 - consumer MDIB is an exact mirror of the provider MDIB after any report history.

spec:    specs/Mdib.tla generates the provider histories; specs/MirrorTrace.tla states the obligation
         (projection equality after every commit, notifications = entities in the reports)
binding: real SdcProvider + SdcConsumer + ConsumerMdib on the loop-back transport (every message serialised,
         XSD-validated and parsed by the repository's own code)
"""
from verif.checks import mdibcommon, mirrorcommon


def check(run, replay_path=None):
    mdibcommon.model_check(run)
    # 'fullstack': real SoapClient + real HTTP request handler (chunked, compressed) instead of the plain loop-back client
    variants = [dict(), dict(async_mgr=True), dict(reference_params=True), dict(transport='fullstack', chunk_size=512)]
    mirrorcommon.run_family(run, 'C01', run.pick(120, 3000), variants)
    run.assumptions += ['in-order, exactly-once delivery (loop-back transport, synchronous dispatcher)',
                        'equality on canonical projections: implied = explicit, timestamps at 1 ms, clock time excluded',
                        'provider clock is virtual ((k+0.25) ms values)']
