"""Shared driver of C01 and the content part of C04: Mdib.tla behaviours -> provider+consumer pair -> MirrorTrace."""
from __future__ import annotations

from verif import tracecheck
from verif.checks import mdibcommon
from verif.mirrorharness import MirrorSession

FAMILY = {
    'C01': {'mirror_mver', 'mirror_ids', 'mirror_D', 'mirror_S', 'mirror_C', 'mirror_rest', 'mirror_init',
            'consumer_lookups_agree', 'consumer_refs', 'consumer_quiet',
            'notified_states_only_reported', 'notified_states_only_changed', 'notified_states_all_changed',
            'notified_context_only_reported', 'notified_context_only_changed', 'notified_context_all_changed',
            'notified_new', 'notified_updated', 'notified_deleted', 'reads_are_answered', 'reads_change_nothing'},
    'C04': {'report_triple', 'report_schema_valid', 'report_truthful', 'report_only_changed', 'report_complete', 'report_description_self_contained',
            'report_mds_grouping', 'report_rest_announced', 'nosend', 'store_truthful'},
    'C03': {'nosend'},
    'C11': {'consumer_lookups_agree', 'provider_lookups_agree_after_reads'},
}


def record(behs, variants):
    traces = []
    for i, beh in enumerate(behs):
        kw = dict(variants[i % len(variants)])
        # histories whose transactions touch the two MDS of the two-MDS concretisation alternately run on that fixture
        # (report parts are grouped by MDS); every fifth of the others does, too
        mixed = any(lab.startswith('M:') and lab.count(':') == 2 and len(lab.split(':')[2]) >= 2
                    and set(lab.split(':')[2]) <= {'A', 'B'} for lab in mdibcommon.situation_labels(beh))
        if i % 2:
            kw['location'] = True      # the provider has a location context state besides what the history creates
        if mixed or i % 5 == 4:
            kw['mapping'] = 'two'
        ses = MirrorSession(mdibcommon.SIM_H, mdibcommon.SIM_CH, **kw)
        try:
            # MutateCopy is a C03 action (and its known finding changes the provider MDIB without a commit):
            # the histories of C01/C04 consist of transactions only
            traces.append(ses.run([r for r in beh if r['act'] not in ('MutateCopy', 'EntityDeleteContextState')]))
        finally:
            ses.close()
    return traces


def strip(trace):
    return [{k: v for k, v in r.items() if k not in ('exc', 'model_res', 'obs', 'published_same', 'sit')} for r in trace]


def run_family(run, pid, num, variants, seed_offset=0, prefixes=None):
    behs = mdibcommon.generate(run, num, run.pick(30, 40), run.seed + 1000 + seed_offset, fold=run.pick(1, 2), prefixes=prefixes)
    traces = record(behs, variants)
    rejects = tracecheck.validate(run, 'MirrorTrace', 'MirrorTrace.cfg', [strip(t) for t in traces], chunk=600)
    fam = FAMILY[pid]
    mine = sorted([r for r in rejects if r[2] in fam], key=lambda x: (x[0], x[1]))
    run.note('rejected_steps_of_other_properties',
             len(tracecheck.first_rejects([r for r in rejects if r[2] not in fam])))
    run.count('commits_mirrored', sum(1 for t in traces for r in t if r['act'] == 'Commit' and r['res'] == 'ok'))
    run.count('reports_on_wire', sum(len(r.get('reports', [])) for t in traces for r in t))
    for t in traces:
        if any(r['act'] == 'Commit' for r in t):
            run.distinct_traces.add(tuple((r['act'], r.get('h'), r.get('c'), r.get('kind'), r['res']) for r in t))
    run.sample([{k: v for k, v in r.items() if k not in ('post', 'cpost')} for r in traces[0][:8]])
    by_trace = {}
    for r in mine:
        by_trace.setdefault(r[0], []).append(r)
    for ti, rs in by_trace.items():
        for (_, li, clause) in rs:
            rec = traces[ti][li]
            tx_ops = []
            for r in traces[ti][:li + 1]:
                if r['act'] == 'Begin':
                    tx_ops = [f"Begin:{r['kind']}"]
                elif r['act'] != 'Init':
                    tx_ops.append(r['act'])
            descr = {'check': 'mirror', 'clause': clause, 'act': rec['act'], 'tx': tx_ops[0] if tx_ops else ''}
            if run.is_known(descr):
                continue
            run.violation(descr, f'{clause} fails at {rec["act"]} ({" ".join(tx_ops[-7:])})',
                          {'behaviour': behs[ti], 'trace': traces[ti], 'failing_record': li})
            break
    return behs, traces
