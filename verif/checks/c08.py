"""C08 - WS-Eventing subscriptions deliver exactly while alive and end cleanly.

spec:    specs/Subscription.tla (requests, virtual-clock ticks, reports with scripted delivery outcomes, housekeeping,
         shutdown); TLC checks GrantedOK, NeverAfterUnsub, UnknownChangesNothing exhaustively and generates behaviours
binding: behaviours are executed on the real subscription managers of a real SdcProvider (sync + async, path and
         reference-parameter dispatching) behind the real hosted-service dispatcher: requests are real SOAP messages
         built by the real consumer subscription class, reports are real transactions, the clock of
         subscriptionmgr_base is virtual, housekeeping runs one iteration per permit, deliveries fail as scripted in
         the loop-back transport.  Every step is judged by TLC (specs/SubscriptionTrace.tla).
"""
from __future__ import annotations

import threading
import uuid
from urllib.parse import urlparse

from verif import tracecheck
from verif.loopback import FakeHttpServer, mk_client_class
from verif.mdibharness import apply_tok, table_agrees
from verif.pair import Pair
from verif.tlc import MachineryError, json_lines, run_tlc

TICK = 1.0
MAXDUR = 2
CLIENT_PORT = {'A': 10011, 'B': 10012}
END_PORT_OFFSET = 10


class VTime:
    """Virtual clock for sdc11073.provider.subscriptionmgr_base; housekeeping threads park in sleep()."""

    def __init__(self):
        import time as _t
        self._real = _t
        self.now = 5000.0
        self.cv = threading.Condition()
        self.parked = set()
        self.permits = {}
        self.off = False

    def time(self):
        return self.now

    def monotonic(self):
        # like the real clocks: same pace as time(), unrelated epoch (code that compares the two is wrong)
        return self.now - 4321.0

    def perf_counter(self):
        return self._real.perf_counter()

    def sleep(self, secs):
        ident = threading.get_ident()
        if threading.current_thread().name != 'housekeeping' or self.off:
            return
        with self.cv:
            self.parked.add(ident)
            self.cv.notify_all()
            self.cv.wait_for(lambda: self.permits.get(ident, 0) > 0 or self.off, timeout=60)
            self.permits[ident] = max(self.permits.get(ident, 0) - 1, 0)
            self.parked.discard(ident)
            self.cv.notify_all()

    def run_housekeeping(self, n_threads):
        with self.cv:
            if not self.cv.wait_for(lambda: len(self.parked) >= n_threads, timeout=10):
                raise MachineryError('housekeeping threads did not park')
            idents = list(self.parked)
            for i in idents:
                self.permits[i] = 1
            self.cv.notify_all()
            if not self.cv.wait_for(lambda: all(self.permits.get(i, 0) == 0 for i in idents)
                                    and all(i in self.parked for i in idents), timeout=10):
                raise MachineryError('housekeeping iteration did not complete')

    def shutdown(self):
        with self.cv:
            self.off = True
            self.cv.notify_all()


class Sink:
    """A subscriber endpoint."""

    def __init__(self):
        self.got = []

    def do_post(self, headers, path, peer, data):
        self.got.append((path, data))
        return 200, 'Ok', b''


class SubSession:
    def __init__(self, async_mgr=False, reference_params=False, transport='loopback'):
        import sdc11073.provider.subscriptionmgr_base as smb
        self.smb = smb
        self.vt = VTime()
        smb.time = self.vt
        try:
            self.pair = Pair(with_consumer=False, async_mgr=async_mgr, reference_params=reference_params,
                             max_subscription_duration=MAXDUR, transport=transport, chunk_size=700)
            self.real = transport == 'fullstack' and not async_mgr
        except Exception:
            smb.time = self.vt._real  # noqa: SLF001
            raise
        self.async_mgr = async_mgr
        self.net = self.pair.net
        self.provider = self.pair.provider
        self.mgr = self.provider.hosted_services.dpws_hosted_services['StateEvent'].subscriptions_manager
        self.n_hk = len(self.provider._subscriptions_managers)  # noqa: SLF001
        self.sinks = {}
        for name, port in CLIENT_PORT.items():
            for p in (port, port + END_PORT_OFFSET):      # EndTo lives on another host:port than NotifyTo
                srv = FakeHttpServer(self.net, '127.0.0.1', p)
                sink = Sink()
                srv.dispatcher.register_instance('sink', sink)
                self.sinks[(name, p)] = sink
        self.fail = {}
        self.connect_refused = []
        self.lost = set()
        self._broke_pos = 0
        self.during = None
        self.during_res = 'none'
        self.strip_expires = False
        self.net.on_post = self._on_post
        self.net.on_connect = self._on_connect
        self.subs = {}           # trace id -> ConsumerSubscription
        self.log_pos = len(self.net.log)
        self.tok = 0
        self._mk_client_side()

    def _mk_client_side(self):
        from sdc11073 import loghelper
        from sdc11073.definitions_sdc import SdcV1Definitions
        from sdc11073.pysoap.msgfactory import MessageFactory
        from sdc11073.pysoap.msgreader import MessageReader
        self.defs = SdcV1Definitions
        logger = loghelper.get_logger_adapter('sdc.verif')
        self.factory = MessageFactory(SdcV1Definitions, [], logger, validate=True)
        self.reader = MessageReader(SdcV1Definitions, [], logger, validate=True)
        cls = mk_client_class(self.net, 'subscriber')
        self.client = cls('127.0.0.1:10001', 5, logger, None, SdcV1Definitions, self.reader)
        self.hosted = self.provider.hosted_services.dpws_hosted_services['StateEvent'].mk_dpws_hosted_instance()

    def _on_post(self, wire):
        if wire.src == 'subscriber' and self.strip_expires:
            # "no duration requested": the consumer API cannot express it, so the element is cut from the wire bytes
            import re
            wire.data = re.sub(rb'<(\w+:)?Expires>[^<]*</(\w+:)?Expires>', b'', wire.data)
        if wire.src == 'provider' and self.during is not None:
            ev, j = self.during
            self.during = None          # the event happens once, while the first notification is on its way
            if ev == 'Tick':
                self.vt.now += TICK
                self.during_res = 'ok'
            else:
                sub = self._subscription_for(j)
                before = len(self.net.log)
                try:
                    sub.unsubscribe()
                except Exception:  # noqa: BLE001
                    pass
                self.during_res = 'fault' if self._last_response_is_fault(before) else 'ok'
        if wire.src == 'provider':
            for name, port in CLIENT_PORT.items():
                if wire.dst.endswith(f':{port}') and name in self.fail:
                    return self._exception(self.fail[name])
                if name in self.lost and b'SubscriptionEnd' in wire.data \
                        and wire.dst.endswith((f':{port}', f':{port + END_PORT_OFFSET}')):
                    if self.async_mgr:
                        import aiohttp.client_exceptions
                        return ('after', aiohttp.client_exceptions.ServerDisconnectedError('scripted: answer lost'))
                    return ('after', TimeoutError('scripted: answer lost'))
        return None

    def _on_connect(self, netloc, local):
        # a subscriber whose endpoint refuses connections: the failure shows up when the provider opens the connection
        if local == 'provider':
            for name, port in CLIENT_PORT.items():
                if netloc.endswith(f':{port}') and self.fail.get(name) == 'refused':
                    self.connect_refused.append(name)
                    return ConnectionRefusedError('scripted refused (connect)')
        return None

    def _exception(self, kind):
        from sdc11073.pysoap.soapclient import HTTPReturnCodeError
        if kind == 'http_error':
            return HTTPReturnCodeError(500, 'scripted', None)
        if kind == 'timeout':
            return TimeoutError('scripted timeout')
        if self.async_mgr:
            import aiohttp.client_exceptions
            return aiohttp.client_exceptions.ClientConnectionError('scripted refused')
        return ConnectionRefusedError('scripted refused')

    # ------------------------------------------------------------------ observation
    def _sent(self):
        out = []
        for w in self.net.log[self.log_pos:]:
            if w.src != 'provider':
                continue
            parts = urlparse(w.path).path.strip('/').split('/')
            if len(parts) < 3 or parts[0] != 'sink':
                continue
            kind = 'End' if b'SubscriptionEnd' in w.data else ('metric' if b'EpisodicMetricReport' in w.data else
                                                               'alert' if b'EpisodicAlertReport' in w.data else 'other')
            port = int(w.dst.rsplit(':', 1)[1])
            host_kind = 'notify' if port in CLIENT_PORT.values() else 'end'
            # addr = where it really went: the endpoint kind only if host:port and path agree
            addr = parts[1] if parts[1] == host_kind else f'misrouted:{host_kind}-host/{parts[1]}-path'
            out.append({'id': int(parts[2]), 'kind': kind, 'addr': addr, 'outcome': w.outcome})
        self.log_pos = len(self.net.log)
        return out

    def _table(self):
        ids = []
        for s in self.mgr._subscriptions.objects:  # noqa: SLF001
            parts = s.notify_to_url.path.strip('/').split('/')
            ids.append(int(parts[2]))
        return sorted(ids)

    def _rec(self, rec, **extra):
        out = {k: (sorted(v) if isinstance(v, (set, list)) and k in ('f', 'fail', 'to', 'ends') else v)
               for k, v in rec.items() if k != 'res'}
        if 'lost' in out:
            out['lost'] = sorted(out['lost'])
        out['model_res'] = rec.get('res', 'ok')
        out['now'] = int(round((self.vt.now - 5000.0) * 100))
        out['sent'] = self._sent()
        out['table'] = self._table()
        out['agree'] = table_agrees(self.mgr._subscriptions)  # noqa: SLF001
        out['real'] = bool(getattr(self, 'real', False))
        out['refused_at_connect'] = sorted(set(self.connect_refused))
        # endpoints for which a socket-level failure was injected while a notification was exchanged (this step)
        broke = set()
        for w in self.net.log[self._broke_pos:]:
            # (also when the request arrived and only its answer was lost: the real client closes the connection alike)
            if w.src == 'provider' and w.outcome.startswith(('failed:', 'answer-lost:')) and w.outcome != 'failed:HTTPReturnCodeError':
                for name, port in CLIENT_PORT.items():
                    if w.dst.endswith(f':{port}'):
                        broke.add(name)
        # ... and the same for the EndTo endpoints (SubscriptionEnd messages of a Stop go there)
        broke_end = set()
        for w in self.net.log[self._broke_pos:]:
            if w.src == 'provider' and w.outcome.startswith(('failed:', 'answer-lost:')) and w.outcome != 'failed:HTTPReturnCodeError':
                for name, port in CLIENT_PORT.items():
                    if w.dst.endswith(f':{port + END_PORT_OFFSET}'):
                        broke_end.add(name)
        out['broke_end'] = sorted(broke_end)
        self._broke_pos = len(self.net.log)
        out['broke'] = sorted(broke)
        self.connect_refused = []
        out.update(extra)
        return out

    def _last_response_is_fault(self, before):
        for w in reversed(self.net.log[before:]):
            if w.src == 'subscriber':
                return (w.response is not None and b'Fault' in w.response) or (w.status or 200) >= 400
        raise MachineryError('request was not sent')

    # ------------------------------------------------------------------ actions
    def _subscription_for(self, i):
        """ConsumerSubscription for trace id i; for an id that was never issued: a well-formed but unknown address."""
        from sdc11073.consumer.subscription import ConsumerSubscription
        from sdc11073.xml_types import eventing_types as evt
        sub = self.subs.get(i)
        if sub is None:
            ft = evt.FilterType()
            ft.text = self.defs.Actions.EpisodicMetricReport
            sub = ConsumerSubscription(self.factory, self.defs.data_model, lambda addr: self.client, self.hosted, ft,
                                       f'http://127.0.0.1:{CLIENT_PORT["A"]}/sink/notify/{i}', None, '')
            resp = evt.SubscribeResponse()
            base = self.hosted.EndpointReference[0].Address
            resp.SubscriptionManager.Address = f'{base}/{uuid.uuid4().hex}'
            ident = __import__('lxml.etree', fromlist=['etree']).Element(
                '{http.local.com}MyDevIdentifier')
            ident.text = uuid.uuid4().hex
            resp.SubscriptionManager.ReferenceParameters = [ident]
            sub.subscribe_response = resp
            sub._subscription_manager_path = urlparse(resp.SubscriptionManager.Address).path  # noqa: SLF001
        sub.is_subscribed = True
        return sub

    def _subscribe(self, rec):
        from sdc11073.consumer.subscription import ConsumerSubscription
        from sdc11073.xml_types import eventing_types as evt
        from sdc11073.xml_types.dpws_types import DeviceEventingFilterDialectURI
        i = rec['id'] if 'id' in rec else rec['j']
        port = CLIENT_PORT[rec['c']]
        actions = {'metric': self.defs.Actions.EpisodicMetricReport, 'alert': self.defs.Actions.EpisodicAlertReport}
        ft = evt.FilterType()
        uris = [actions[a] for a in sorted(rec['f'])]
        sep = rec.get('sep', 'blank')
        ft.text = {'blank': ' '.join(uris), 'newline': '\n'.join(uris), 'tab': '\t'.join(uris),
                   'padded': '\n      ' + '\n      '.join(uris) + '\n    '}[sep]
        ft.Dialect = DeviceEventingFilterDialectURI.ACTION
        end_to = f'http://127.0.0.1:{port + END_PORT_OFFSET}/sink/end/{i}' if rec['endTo'] else None
        sub = ConsumerSubscription(self.factory, self.defs.data_model, lambda addr: self.client, self.hosted, ft,
                                   f'http://127.0.0.1:{port}/sink/notify/{i}', end_to, '')
        self.strip_expires = not rec['req']
        try:
            sub.subscribe(expires=rec['req'] * TICK if rec['req'] else 60)
        finally:
            self.strip_expires = False
        ok = sub.is_subscribed
        if ok:
            self.subs[i] = sub
        return ok, sub

    def step(self, rec):
        from sdc11073.consumer.subscription import ConsumerSubscription
        from sdc11073.xml_types import eventing_types as evt
        from sdc11073.xml_types.dpws_types import DeviceEventingFilterDialectURI
        act = rec['act']
        before = len(self.net.log)
        if act == 'Subscribe':
            ok, sub = self._subscribe(rec)
            return self._rec(rec, res='ok' if ok else 'fault', req=rec['req'] * 100,
                             granted=int(round(sub.granted_expires * 100)) if ok else -1)
        if act == 'Renew':
            sub = self._subscription_for(rec['id'])
            req = rec['req'] or (MAXDUR + 1)   # the consumer API always sends an Expires value with Renew
            sub.renew(expires=req * TICK)
            fault = self._last_response_is_fault(before)
            return self._rec(rec, res='fault' if fault else 'ok', req=req * 100,
                             granted=-1 if fault else int(round(sub.granted_expires * 100)))
        if act == 'GetStatus':
            sub = self._subscription_for(rec['id'])
            try:
                remaining = sub.get_status()
            except Exception:  # noqa: BLE001
                remaining = 0.0
            fault = self._last_response_is_fault(before)
            return self._rec(rec, res='fault' if fault else 'ok', remaining=-1 if fault else int(round(remaining * 100)))
        if act == 'Unsubscribe':
            sub = self._subscription_for(rec['id'])
            try:
                sub.unsubscribe()
            except Exception:  # noqa: BLE001
                pass
            fault = self._last_response_is_fault(before)
            return self._rec(rec, res='fault' if fault else 'ok')
        if act == 'Tick':
            self.vt.now += TICK
            return self._rec(rec, res='ok')
        if act == 'Housekeeping':
            self.vt.run_housekeeping(self.n_hk)
            return self._rec(rec, res='ok')
        if act == 'Report':
            self.fail = {c: rec['kind'] for c in rec['fail']}
            self.tok += 1
            m = self.pair.mdib
            try:
                if rec['a'] == 'metric':
                    with m.metric_state_transaction() as mgr:
                        apply_tok(mgr.get_state('numeric.ch0.vmd0'), self.tok)
                else:
                    with m.alert_state_transaction() as mgr:
                        apply_tok(mgr.get_state('ac0.vmd0.mds0'), self.tok)
            finally:
                self.fail = {}
            return self._rec(rec, res='ok')
        if act == 'ReportDuring' and rec['ev'] == 'Subscribe':
            return self._report_during_subscribe(rec)
        if act == 'ReportDuring':
            ev = rec['ev']
            if ev == 'Unsubscribe' and self.async_mgr:
                ev = 'Tick'      # a request cannot be served from inside the event loop of the async manager
            self.during, self.during_res = (ev, rec['j']), 'none'
            self.tok += 1
            m = self.pair.mdib
            try:
                if rec['a'] == 'metric':
                    with m.metric_state_transaction() as mgr:
                        apply_tok(mgr.get_state('numeric.ch0.vmd0'), self.tok)
                else:
                    with m.alert_state_transaction() as mgr:
                        apply_tok(mgr.get_state('ac0.vmd0.mds0'), self.tok)
            finally:
                happened = self.during is None
                self.during = None
            out = self._rec(rec, res='ok', evres=self.during_res)
            out['ev'] = ev if happened else 'none'
            return out
        if act == 'Stop':
            for mgr in self.provider._subscriptions_managers.values():  # noqa: SLF001
                mgr._run_housekeeping_thread = False  # noqa: SLF001
            self.vt.shutdown()
            self.lost = set(rec.get('lost', []))
            try:
                self.provider.stop_all(send_subscription_end=rec['sendEnd'])
            finally:
                self.lost = set()
            self.stopped = True
            out = self._rec(rec, res='ok')
            return out
        raise MachineryError(f'unmodelled action {act}')

    def _report_during_subscribe(self, rec):
        """A Subscribe is served by 'another thread' at the moment the manager leaves the locked section in which it
        selected the subscribers of the report (sync managers); the async managers select and send inside one locked
        section, there the request is served just before."""
        import threading
        result = {}

        def do_subscribe():
            ok, sub = self._subscribe(rec)
            result.update(ok=ok, granted=int(round(sub.granted_expires * 100)) if ok else -1)
        table = self.mgr._subscriptions  # noqa: SLF001
        real = table._lock  # noqa: SLF001
        me = threading.get_ident()

        class HookLock:
            def __init__(self):
                self.depth = 0
                self.fired = False

            def acquire(self, *a, **kw):
                ok = real.acquire(*a, **kw)
                if ok and threading.get_ident() == me:
                    self.depth += 1
                return ok

            def release(self):
                real.release()
                if threading.get_ident() == me:
                    self.depth -= 1
                    if self.depth == 0 and not self.fired and session.in_commit:
                        self.fired = True
                        do_subscribe()

            def __enter__(self):
                self.acquire()
                return self

            def __exit__(self, *a):
                self.release()
                return False
        session = self
        self.in_commit = False
        hook = HookLock()
        if self.async_mgr:
            do_subscribe()
        else:
            table._lock = hook  # noqa: SLF001
        self.tok += 1
        m = self.pair.mdib
        try:
            self.in_commit = True
            if rec['a'] == 'metric':
                with m.metric_state_transaction() as mgr:
                    apply_tok(mgr.get_state('numeric.ch0.vmd0'), self.tok)
            else:
                with m.alert_state_transaction() as mgr:
                    apply_tok(mgr.get_state('ac0.vmd0.mds0'), self.tok)
        finally:
            self.in_commit = False
            table._lock = real  # noqa: SLF001
        if not result:
            do_subscribe()       # (the manager never came to select subscribers: the request is simply served afterwards)
        out = self._rec(rec, res='ok', evres='ok' if result.get('ok') else 'fault', granted=result.get('granted', -1),
                        req=rec['req'] * 100)
        return out

    def run(self, beh):
        self.stopped = False
        trace = [self._rec({'act': 'Init'})]
        for rec in beh:
            if self.stopped:
                break
            trace.append(self.step(rec))
        return trace

    def close(self):
        try:
            if not getattr(self, 'stopped', False):
                for mgr in self.provider._subscriptions_managers.values():  # noqa: SLF001
                    mgr._run_housekeeping_thread = False  # noqa: SLF001
                self.vt.shutdown()
                self.provider.stop_all(send_subscription_end=False)   # joins the housekeeping threads
            self.vt.shutdown()
        finally:
            self.smb.time = self.vt._real  # noqa: SLF001
            self.net.on_post = None


def check(run, replay_path=None):
    from sdc11073.provider.subscriptionmgr_base import SubscriptionBase
    cfg = 'Subscription_mc.cfg'
    res = run_tlc('SubscriptionMC', cfg if not run.quick else 'Subscription_mc_quick.cfg', timeout=3000, coverage=True)
    run.add_tlc(res, ['Subscribe', 'Renew', 'GetStatus', 'Unsubscribe', 'Tick', 'Housekeeping', 'Stop', 'ReportDuring'])
    num = run.pick(160, 3000)
    res = run_tlc('SubscriptionMC', 'Subscription_sim.cfg', workers=1, simulate=f'num={num}', depth=17, seed=run.seed)
    run.add_tlc(res)
    behs = json_lines(res.stdout, 'BEH')
    if len(behs) < num // 2:
        raise MachineryError(f'expected about {num} behaviours, got {len(behs)}')
    # TLC's simulator picks uniformly among successor states, so Tick / Housekeeping (one successor each) are rare next to
    # the many Subscribe / Renew / Report variants.  Both are enabled in every state of the specification, so inserting
    # them keeps each behaviour a behaviour of Subscription.tla; the model's predicted fields (res, to) are not used.
    import random
    rnd = random.Random(run.seed)
    mixed = []
    for beh in behs:
        out = []
        for rec in beh:
            out.append(rec)
            if rec['act'] != 'Stop':
                x = rnd.random()
                if x < 0.22:
                    out.append({'act': 'Tick'})
                elif x < 0.32:
                    out.append({'act': 'Housekeeping'})
        mixed.append(out)
    behs = mixed
    # 'fullstack': the provider delivers with the real SoapClient (connection pool, sticky connection errors, chunking,
    # content coding) to the real HTTP request handler in front of the subscriber endpoints
    variants = [dict(), dict(async_mgr=True), dict(transport='fullstack'), dict(reference_params=True),
                dict(async_mgr=True, reference_params=True), dict(transport='fullstack', reference_params=True)]
    jobs = [(beh, variants[i % len(variants)]) for i, beh in enumerate(behs)]
    # test purposes (breadth-first TLC run over tiny constants): for every pair (fate of the earlier deliveries to an
    # endpoint, outcome of this one) the shortest history - e.g. subscribe, delivery times out, housekeeping removes the
    # subscription, the same endpoint subscribes again, report.  Each runs on the three kinds of transport / manager.
    res = run_tlc('SubscriptionMC', 'Subscription_purpose.cfg', workers=1, timeout=1800)
    run.add_tlc(res)
    purpose = json_lines(res.stdout, 'BEH')
    if len(purpose) < 20:
        raise MachineryError(f'expected about 32 test-purpose histories from Subscription_purpose.cfg, got {len(purpose)}')
    run.note('test_purposes_notified_after_fate', len(purpose))
    for beh in purpose:
        for variant in (dict(transport='fullstack'), dict(), dict(async_mgr=True)):
            jobs.append((beh, variant))
    behs = [b for b, _ in jobs]
    traces = []
    for beh, variant in jobs:
        ses = SubSession(**variant)
        try:
            traces.append(ses.run(beh))
        finally:
            ses.close()
    extra = {'maxdur': MAXDUR * 100, 'maxerrors': SubscriptionBase.MAX_NOTIFY_ERRORS}
    rejects = tracecheck.validate(run, 'SubscriptionTrace', 'SubscriptionTrace.cfg', traces, extra=extra, chunk=800)
    for key in ('Report', 'ReportDuring', 'Renew', 'GetStatus', 'Unsubscribe', 'Housekeeping', 'Stop', 'Tick', 'Subscribe'):
        run.count('steps_' + key, sum(1 for t in traces for r in t if r['act'] == key))
    run.count('notifications_delivered', sum(len(r['sent']) for t in traces for r in t))
    run.count('faults_observed', sum(1 for t in traces for r in t if r.get('res') == 'fault'))
    for t in traces:
        run.distinct_traces.add(tuple((r['act'], r.get('id'), r.get('a'), r.get('res')) for r in t))
    run.sample([{k: v for k, v in r.items()} for r in traces[0][:8]])
    by_trace = {}
    for r in sorted(rejects, key=lambda x: (x[0], x[1])):
        by_trace.setdefault(r[0], []).append(r)
    for ti, rs in by_trace.items():
        variant = jobs[ti][1]
        for (_, li, clause) in rs:
            rec = traces[ti][li]
            descr = {'check': 'subscriptions', 'clause': clause, 'act': rec['act'],
                     'manager': 'async' if variant.get('async_mgr') else 'sync'}
            if run.is_known(descr):
                continue
            run.violation(descr, f'{clause} fails at {rec["act"]} (record {li}, {variant})',
                          {'behaviour': behs[ti], 'trace': traces[ti], 'failing_record': li, 'variant': variant})
            break
    # ---- the consumer side of WS-Eventing (specs/EventingClient.tla).  It is outside the statement of C08: a rejected
    # step is described in the evidence (other_specifications), never reported as a violation of C08.
    from verif.checks import eventingclient
    crej, ctraces = eventingclient.family(run)
    described = []
    for (ti, li, clause) in tracecheck.first_rejects(crej)[:10]:
        rec = ctraces[ti][li]
        described.append({'clause': clause, 'step': {k: v for k, v in rec.items() if k != 'post'},
                          'before': ctraces[ti][li - 1]['post'], 'after': rec['post']})
    run.note('other_specifications', {'EventingClient.tla': {
        'what': 'consumer subscription client (belief, renew loop, unsubscribe_all, SubscriptionEnd) against the real provider',
        'traces': len(ctraces), 'steps': sum(len(t) - 1 for t in ctraces), 'rejected_steps': len(tracecheck.first_rejects(crej)),
        'rejections': described}})
    if crej:
        print(f'NOTE: EventingClient.tla (not a listed property): {len(tracecheck.first_rejects(crej))} recorded step(s) '
              f'differ from the specification, first: {described[0]["clause"]} at {described[0]["step"].get("act")}')
    run.assumptions += ['tick = 1 s of the virtual clock; provider maximum 2 s; failure limit read from the code',
                        'a request for a subscription that is no longer live but possibly not yet removed may fault or succeed',
                        'loop-back transport; delivery failures are raised by the transport as scripted']
