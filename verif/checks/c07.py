"""C07 - Get responses are consistent snapshots under concurrent transactions.

spec:    specs/Threads.tla - all interleavings (lock-acquire/release granularity, re-entrant mdib lock, plain
         transaction lock) of the thread programs RECORDED from the real Get handlers and transactions
binding: every schedule TLC enumerates is executed on real threads by a deterministic scheduler (verif/sched.py);
         the responses (parsed by the real consumer client) are judged by TLC (specs/ThreadsTrace.tla) against the
         per-version history of the provider MDIB recorded during the same run
"""
from __future__ import annotations

from verif import tracecheck
from verif.threads_engine import Lab, enumerate_schedules
from verif.tlc import MachineryError

SCENARIOS_QUICK = [
    ('R_state_m1', 'W_metric_m1'), ('R_state_all', 'W_comp_vmd'), ('R_mdib', 'W_descr_m1'),
    ('R_descr', 'W_descr_ch'), ('R_ctx_all', 'W_ctx'), ('R_state_m1', 'W_comp_vmd'),
    # a requested descriptor is created / deleted while the request is served ('post:' / 'pre:' operations run
    # unscheduled after / before every schedule and restore the start state)
    ('R_descr_dA', 'W_add_dA', 'post:W_del_dA'), ('R_descr_dA', 'W_del_dA', 'pre:W_add_dA'),
    # the waveform path: real-time sample transactions (written many times per second) against GetMdState
    ('R_state_rt', 'W_rt'), ('R_state_all', 'W_rt'),
    # the application keeps a context entity, refreshes it after a new state was committed and prepares changes on it
    # without committing them: Get answers and the MDIB of that version stay what was committed
    ('R_ctx_all', 'A_entity_touch', 'pre:W_ctx_newpat'), ('R_mdib', 'A_entity_touch', 'pre:W_ctx_newpat'),
    # a descriptor transaction on the descriptor of a selected state while the answer waits to be serialised
    ('R_state_m1', 'W_descr_m1'), ('R_ctx_all', 'W_descr_pc'),
]
SCENARIOS_THOROUGH = SCENARIOS_QUICK + [
    ('R_state_m1', 'W_metric_m1', 'W_comp_vmd'), ('R_state_all', 'R_descr', 'W_descr_m1'),
    ('R_ctx_pc', 'W_ctx', 'W_metric_m1'), ('R_mdib', 'W_metric_m1', 'W_metric_m2'),
    ('R_state_m1', 'R_ctx_all', 'W_metric_m1', 'W_ctx'),
]


def run_scenarios(run, scenarios, limit_per_scenario, family, prefix='c07', lab_kw=None):
    lab_kw = lab_kw or {}
    lab = Lab(**lab_kw)
    traces, descrs = [], []
    try:
        programs = {}
        full = scenarios
        scenarios = [tuple(n for n in sc if ':' not in n) for sc in full]
        pres = [[n[4:] for n in sc if n.startswith('pre:')] for sc in full]
        posts = [[n[5:] for n in sc if n.startswith('post:')] for sc in full]
        # operations that change which descriptors exist are recorded in the state they need, then undone
        before_record = {'W_del_dA': ['W_add_dA']}
        after_record = {'W_add_dA': ['W_del_dA']}
        for sc in scenarios:
            for name in sc:
                if name not in programs:
                    for other in before_record.get(name, []):
                        lab.run_free(other)
                    programs[name] = lab.record_program(name)
                    for other in after_record.get(name, []):
                        lab.run_free(other)
        run.note('thread_programs', {n: [f"{e['op']}:{e['lock']}" for e in p] for n, p in programs.items()})
        for si, sc in enumerate(scenarios):
            progs = {i + 1: programs[n] for i, n in enumerate(sc)}
            readers = [i + 1 for i, n in enumerate(sc) if n.startswith(('R_', 'O_', 'P_', 'A_'))]   # threads whose code after a release matters
            total_events = sum(len(p) for p in progs.values())
            exhaustive = total_events <= 34 and len(sc) <= 2
            scheds = enumerate_schedules(run, f'{prefix}_{si}', progs, readers,
                                         limit=None if exhaustive else limit_per_scenario, seed=run.seed + si)
            if not exhaustive:
                scheds = scheds[:limit_per_scenario]
            elif len(scheds) > 4 * limit_per_scenario:
                # all interleavings are known; executing each on real threads is what costs: an evenly spread subset
                step = -(-len(scheds) // (4 * limit_per_scenario))
                run.count('schedules_enumerated_but_not_executed', len(scheds) - len(scheds[::step]))
                scheds = scheds[::step]
            run.count('schedules', len(scheds))
            run.count('schedules_predicted_unsafe_by_model', sum(1 for s in scheds if not s['snapshot']))
            recs = []
            for s in scheds:
                try:
                    rec = lab.execute(sc, s['sched'], pres[si], posts[si])
                except MachineryError:
                    # e.g. an operation died in the middle of its program: start again with a fresh pair, once
                    try:
                        lab.close()
                    except Exception:  # noqa: BLE001
                        pass
                    lab = Lab(**lab_kw)
                    rec = lab.execute(sc, s['sched'], pres[si], posts[si])
                rec['predicted_snapshot'] = s['snapshot']
                recs.append(rec)
                run.distinct_traces.add((sc, tuple(s['sched'])))
            traces.append(recs)
            descrs.append(sc)
    finally:
        lab.close()
    run.sample({'ops': traces[0][0]['ops'], 'schedule': traces[0][0]['schedule'], 'reads': traces[0][0]['reads']})
    rejects = tracecheck.validate(run, 'ThreadsTrace', 'ThreadsTrace.cfg',
                                  [[_strip(r) for r in recs] for recs in traces], chunk=50, zero_based=True)
    for (ti, li, clause) in rejects:
        if clause not in family:
            continue
        rec = traces[ti][li]
        kinds = sorted({r['kind'] for r in rec['reads']})
        descr = {'check': 'threads', 'clause': clause, 'ops': '+'.join(descrs[ti])}
        if run.is_known(descr):
            continue
        run.violation(descr, f'{clause}: ops {descrs[ti]} reads {kinds} under schedule {rec["schedule"]}', rec)
    return traces


def _strip(rec):
    return {k: rec[k] for k in ('reads', 'phist', 'wire', 'errors', 'txids', 'txid0', 'mver0', 'mver_end', 'nwv', 'ctxhist', 'conflicts')}


FAMILY = {'label_is_a_version_that_existed', 'snapshot_content', 'snapshot_selection', 'each_at_most_once',
          'request_answered', 'mdib_changes_only_with_a_new_version'}


def check(run, replay_path=None):
    scenarios = run.pick(SCENARIOS_QUICK, SCENARIOS_THOROUGH)
    run_scenarios(run, scenarios, run.pick(60, 1500), FAMILY)
    run.assumptions += ['atomic step = from one traced point (lock acquire/release, version group access, send) to the next',
                        'loop-back transport; requests issued by the real consumer service clients']
