"""C19 - with TLS configured no endpoint is advertised or contacted in plaintext.

spec:    specs/Tls.tla - configuration / phase model: provider TLS {off,on} x consumer TLS {none,optional,enforced}
         x provider http server {shared,own} x consumer http server {shared,own} x alternative host name {none,set}
         x peer answers TLS {yes,no} (x subscription manager {sync, async, sync_ref, async_ref} in the thorough tier,
         *_ref: reference-parameter managers on both sides); phases metadata,
         hosted (metadata + WSDL), subscribe, probe, notification, renew (Renew + GetStatus), operation, unsubscribe,
         stop (provider stop with SubscriptionEnd).  Advertised(c, ph) / Connects(c, ph) / ReqScheme / AllowedCtx /
         OwnServerCtx are the reference; the behaviour walks every configuration through the phases and the laws of
         the property are invariants (checked by TLC before anything is run).  Also enumerated: the certloader
         cases (entry point x CA file x cipher file) and the real soap client classes (x ssl context).
binding: spec -> code: TLC prints every case (CASE lines); verif/c19_helpers.TlsPair builds a REAL SdcProvider and
         SdcConsumer for each configuration on the loop-back transport (real ssl.SSLContext objects made by
         sdc11073.certloader from /repo/tests/certificates; own http servers are the real HttpServerThreadBase with
         only its socket server class replaced) and drives the phases through the public API.  Recorded per phase:
         every http(s) URL of a party's own server in every serialised request / response (xaddrs, hosted EPRs, WSDL
         location, SubscriptionManager, NotifyTo, EndTo, SubscriptionEnd), the xaddrs handed to WS-Discovery and
         returned by get_xaddrs, the WSDL documents; every soap client created, every connect attempt (ssl context,
         outcome) and every request sent; the ssl context each own http server wrapped its socket with.
         "peer answers TLS = no" is the downgrade environment: every TLS handshake fails with ssl.SSLError and every
         server answers plaintext, so a fallback to plaintext would succeed and be seen.
         code -> spec: TLC (specs/TlsTrace.tla) judges every recorded execution with the SAME operators; python only
         maps rejected clauses to findings.  Clauses named SANITY:* compare harness and model (reachability of the
         phases, presence of the expected addresses / connections: vacuity) and are machinery failures.
         certloader clause: attributes of the created contexts (verify_mode, loaded CA, side) AND their behaviour in
         in-memory handshakes (ssl.MemoryBIO, no sockets): mutual handshake verifies both certificates; a client
         without certificate, a client with an untrusted certificate and a server with an untrusted certificate
         (fixtures/c19/other_*.pem) are rejected.  soap client clause: the real SoapClient / SoapClientAsync build a
         https connection with exactly the given context iff a context is given (no connection is opened).
second life: after a failed first connect the same consumer object is stopped and started again (record "retry");
         for every configuration with a session a second trace stops after "subscribe", turns the environment into
         the downgrade environment and restarts the consumer (record "restart").  Tls.tla models both (Retry,
         RestartHostile; the laws hold in every life), TlsTrace judges the second start_all with the obligations of
         the first (an enforcing consumer must not have forgotten that it enforces).
not demanded: anything of a party without TLS (consumer: not enforced) except the documented rule for the optional
         consumer (plaintext only after an SSL error on the first connect); check_hostname of the client context
         (recorded only); that a phase succeeds (only that nothing is advertised / contacted in plaintext).
--replay <file>: re-drives the single case stored in a replay file and lets TLC judge it.
"""
from __future__ import annotations

import asyncio
import decimal
import json
import pathlib
import re
import ssl
import time
from urllib.parse import urlparse

from verif import tracecheck
from verif.c19_helpers import CERT_FOLDER, TlsPair, mk_container, urls_in
from verif.common import VERIF
from verif.tlc import MachineryError, json_lines, run_tlc

FIX = pathlib.Path(VERIF) / 'fixtures' / 'c19'
PHASES = ['metadata', 'hosted', 'subscribe', 'probe', 'notification', 'renew', 'operation', 'unsubscribe', 'stop']
ACTION_RE = re.compile(rb'<[^<>]*\bAction\b[^<>]*>([^<]+)<')


# --------------------------------------------------------------------------- configuration traces
def wire_phase(w) -> str:
    """Phase of a request sent while SdcConsumer.start_all runs."""
    if w.kind == 'get':
        return 'hosted'
    m = ACTION_RE.search(w.data or b'')
    action = m.group(1).decode() if m else ''
    if action.endswith('GetMetadata/Request'):
        return 'hosted'
    if action.endswith('eventing/Subscribe'):
        return 'subscribe'
    return 'metadata'


class Recorder:
    def __init__(self, tp: TlsPair):
        self.tp = tp
        self.net = tp.net
        self.w0 = self.e0 = self.p0 = 0
        self.calls = 0

    def window(self):
        """Wires / events / published xaddrs since the last call."""
        net = self.net
        wires, events, pub = net.log[self.w0:], net.events[self.e0:], self.tp.wsd.published[self.p0:]
        self.w0, self.e0, self.p0 = len(net.log), len(net.events), len(self.tp.wsd.published)
        self.calls += len(wires) + len(events)
        return wires, events, pub

    def author(self, netloc: str) -> str:
        return self.net.owner.get(int(netloc.rpartition(':')[2]), '?')

    def adv_of(self, wires) -> tuple[list[dict], int]:
        """Addresses a party advertises: URLs of its own server in messages it wrote."""
        adv, echoes = [], 0
        for w in wires:
            for author, data in ((w.src, w.data), (self.author(w.dst), w.response)):
                for owner, kind, scheme, url in urls_in(data, self.net):
                    if owner == author:
                        adv.append({'party': owner, 'kind': kind, 'scheme': scheme, 'url': url,
                                    'wellformed': url.startswith(scheme + '://')})
                    else:
                        echoes += 1
        return adv, echoes

    @staticmethod
    def ev_of(events) -> list[dict]:
        return [{'party': e['party'], 'ev': e['ev'], 'ctx': e['ctx'], 'out': e['out']} for e in events]


def mk_rec(phase, reached, adv, ev, srv=(), info=None) -> dict:
    return {'phase': phase, 'reached': 'ok' if reached else 'fail', 'adv': list(adv), 'ev': list(ev),
            'srv': list(srv), 'info': info or {}}


def drive_cfg(payload: dict) -> tuple[list[dict], int]:
    """One configuration through all phases on real objects; returns (trace, number of real calls observed)."""
    c = payload['c']
    delivers = payload.get('delivers', True)
    trace = [{'phase': 'init', 'c': c}]
    tp = TlsPair(c)
    rec = Recorder(tp)
    try:
        # ---- metadata, hosted, subscribe: WS-Discovery announcement + SdcConsumer.start_all
        tp.provider.publish()
        xaddrs = [(x, 'xaddr:get_xaddrs') for x in tp.provider.get_xaddrs()]
        consumer = tp.mk_consumer()
        err = None
        try:
            tp.start_consumer()
        except Exception as ex:  # noqa: BLE001  the reason is recorded and judged against the model
            err = ex
        wires, events, pub = rec.window()
        xaddrs += [(x, 'xaddr') for p in pub for x in p[3]]
        api_adv = [{'party': 'provider', 'kind': 'xaddr', 'scheme': urlparse(x).scheme, 'url': x,
                    'wellformed': '://' in x, 'src': src} for x, src in xaddrs]
        def again(name):
            """Second life of the same consumer object: stop_all, then start_all once more."""
            tp.stop_consumer()
            err2 = None
            try:
                tp.start_consumer()
            except Exception as ex:  # noqa: BLE001  recorded; what matters is how connections were attempted
                err2 = ex
            wires2, events2, _ = rec.window()
            adv2, _ = rec.adv_of(wires2)
            trace.append(mk_rec(name, err2 is None, adv2, rec.ev_of(events2),
                                info={'exc': type(err2).__name__, 'msg': str(err2)[:200]} if err2 else None))

        if err is not None:
            adv, _ = rec.adv_of(wires)
            trace.append(mk_rec('metadata', False, api_adv + adv, rec.ev_of(events),
                                info={'exc': type(err).__name__, 'msg': str(err)[:200]}))
            again('retry')
            return trace, rec.calls
        # split the start_all window by what each request is
        by_phase = {ph: {'wires': [], 'ev': []} for ph in PHASES[:3]}
        wire_at = {w.seq: w for w in wires}
        ph = 'subscribe'
        for e in reversed(events):      # creations / connects belong to the request they precede
            if e['ev'] == 'send' and e.get('at') in wire_at:
                ph = wire_phase(wire_at[e['at']])
            by_phase[ph]['ev'].insert(0, e)
        for w in wires:
            by_phase[wire_phase(w)]['wires'].append(w)
        for ph in PHASES[:3]:
            adv, _ = rec.adv_of(by_phase[ph]['wires'])
            if ph == 'metadata':
                adv = api_adv + adv
            if ph == 'hosted':    # the WSDL documents themselves
                for hs in consumer.hosted_services.values():
                    for owner, kind, scheme, url in urls_in(getattr(hs, 'wsdl_bytes', None), tp.net):
                        adv.append({'party': owner, 'kind': 'wsdl_doc', 'scheme': scheme, 'url': url,
                                    'wellformed': url.startswith(scheme + '://')})
            trace.append(mk_rec(ph, True, adv, rec.ev_of(by_phase[ph]['ev'])))
        if payload.get('restart'):
            # the environment turns hostile (every TLS handshake fails, everything answers plaintext) and the
            # application restarts the consumer
            tp.net.downgrade = True
            again('restart')
            return trace, rec.calls
        subs = list(consumer.subscription_mgr.subscriptions.values())
        state_sub = next((s for s in subs if s._hosted_service_path.endswith('/StateEvent')), None)  # noqa: SLF001
        set_sub = next((s for s in subs if s._hosted_service_path.endswith('/Set')), None)  # noqa: SLF001
        if state_sub is None or set_sub is None:
            raise MachineryError(f'expected a StateEvent and a Set subscription, got {[str(s) for s in subs]}')

        def phase(name, fn, ok_of):
            info = {}
            result = None
            try:
                result = fn()
            except Exception as ex:  # noqa: BLE001
                info = {'exc': type(ex).__name__, 'msg': str(ex)[:200]}
            wires, events, _ = rec.window()
            adv, _ = rec.adv_of(wires)
            reached = not info and bool(ok_of(result, wires))
            trace.append(mk_rec(name, reached, adv, rec.ev_of(events), info=info))

        def delivered(wires, what=b''):
            return [w for w in wires if w.src == 'provider' and w.outcome == 'delivered' and w.status == 200
                    and what in w.data]

        # ---- probe (directed Probe: XAddrs in ProbeMatches)
        phase('probe', consumer.send_probe,
              lambda r, ws: r is not None and len(r.ProbeMatch) > 0 and len(r.ProbeMatch[0].XAddrs) > 0)

        # ---- notification: an episodic metric report
        def notify():
            with tp.mdib.metric_state_transaction() as mgr:
                st = mgr.get_state('numeric.ch0.vmd0')
                st.MetricValue.Value = decimal.Decimal(7)
        phase('notification', notify, lambda r, ws: delivered(ws, b'EpisodicMetricReport'))

        # ---- renew / status
        phase('renew', lambda: (state_sub.renew(60), state_sub.get_status()),
              lambda r, ws: r[0] > 0 and r[1] > 0)

        # ---- operation: a Get request and a SetString operation (answered by OperationInvokedReports)
        def operate():
            consumer.get_service_client.get_md_state()
            n_ev = len(tp.net.events)
            fut = consumer.set_service_client.set_string('DN_SET', 'c19')
            try:
                res = fut.result(timeout=10 if delivers else 0.05)
                return res.InvocationInfo.InvocationState.value
            except Exception:  # noqa: BLE001  no report can arrive where the model says nothing is delivered
                if delivers:
                    raise
                t_end = time.time() + 3      # the provider's worker thread tries to send the report
                while time.time() < t_end and not any(e['party'] == 'provider' for e in tp.net.events[n_ev:]):
                    time.sleep(0.005)
                return 'no-report'
        phase('operation', operate, lambda r, ws: r == 'Fin' and delivered(ws, b'OperationInvokedReport'))
        time.sleep(0.005)

        # ---- unsubscribe (the Set subscription; StateEvent stays for the SubscriptionEnd)
        phase('unsubscribe', set_sub.unsubscribe, lambda r, ws: not set_sub.is_subscribed)

        # ---- provider stop with SubscriptionEnd
        phase('stop', lambda: tp.stop_provider(True), lambda r, ws: delivered(ws, b'SubscriptionEnd'))
        return trace, rec.calls
    finally:
        try:
            srv = []
            for party, obj in (('provider', tp.provider), ('consumer', tp.consumer)):
                http = getattr(obj, '_http_server', None)
                httpd = getattr(http, 'httpd', None)
                if httpd is not None and httpd in tp.net.own_servers:
                    srv.append({'party': party, 'ctx': tp.net.ctx_name(httpd.wrapped_with),
                                'scheme': urlparse(http.base_url or '').scheme})
            tp.close()
            wires, events, _ = rec.window()
            adv, _ = rec.adv_of(wires)
            trace.append(mk_rec('end', True, adv, rec.ev_of(events), srv))
        except Exception:
            tp.close()
            raise


# --------------------------------------------------------------------------- certloader cases
def handshake(cctx: ssl.SSLContext, sctx: ssl.SSLContext) -> str:
    """TLS handshake of two contexts over memory BIOs (no sockets)."""
    cin, cout, sin, sout = ssl.MemoryBIO(), ssl.MemoryBIO(), ssl.MemoryBIO(), ssl.MemoryBIO()
    c = cctx.wrap_bio(cin, cout, server_side=False)
    s = sctx.wrap_bio(sin, sout, server_side=True)
    done_c = done_s = False
    for _ in range(30):
        if not done_c:
            try:
                c.do_handshake()
                done_c = True
            except ssl.SSLWantReadError:
                pass
            except ssl.SSLError:
                return 'rejected:client'
        data = cout.read()
        if data:
            sin.write(data)
        if not done_s:
            try:
                s.do_handshake()
                done_s = True
            except ssl.SSLWantReadError:
                pass
            except ssl.SSLError:
                return 'rejected:server'
        data = sout.read()
        if data:
            cin.write(data)
        if done_c and done_s:
            try:
                c.read(1)      # TLS 1.3: an alert for the client certificate arrives after the client finished
            except ssl.SSLWantReadError:
                pass
            except ssl.SSLError:
                return 'rejected:server'
            both = bool(s.getpeercert(True)) and bool(c.getpeercert(True))
            return 'ok:both_certs' if both else 'ok:one_cert'
    return 'stuck'


def drive_cert(payload: dict) -> dict:
    from sdc11073 import certloader
    k = payload['c']
    folder = pathlib.Path(CERT_FOLDER)
    a = {'exc': '', 'client': {'verify': '', 'side': '', 'cas': 0, 'check_hostname': False},
         'server': {'verify': '', 'side': '', 'cas': 0, 'check_hostname': False}, 'distinct': False,
         'hs': {'mutual': '', 'nocert_client': '', 'untrusted_client': '', 'untrusted_server': ''}}

    def build():
        if k['entry'] == 'mk_ssl_contexts':
            cyphers = None
            if k['cyphers'] == 'given':
                cyphers = [ln.strip() for ln in (FIX / 'cyphers.txt').read_text().splitlines()
                           if ln.strip() and not ln.startswith('#')][0]
            return certloader.mk_ssl_contexts(folder / 'test_private_key.pem', folder / 'test_certificate.pem',
                                              folder / 'test_certificate.pem' if k['ca'] == 'given' else None,
                                              cyphers, 'password')
        return certloader.mk_ssl_contexts_from_folder(
            folder, private_key='test_private_key.pem', certificate='test_certificate.pem',
            ca_public_key='test_certificate.pem' if k['ca'] == 'given' else None,
            cyphers_file=str(FIX / 'cyphers.txt') if k['cyphers'] == 'given' else None, ssl_passwd='password')

    try:
        one, two = build(), build()
    except Exception as ex:  # noqa: BLE001
        a['exc'] = f'{type(ex).__name__}: {ex}'[:200]
        return {'c': k, 'a': a}
    sides = {ssl.PROTOCOL_TLS_CLIENT: 'client', ssl.PROTOCOL_TLS_SERVER: 'server'}
    for name, ctx in (('client', one.client_context), ('server', one.server_context)):
        a[name] = {'verify': ctx.verify_mode.name, 'side': sides.get(ctx.protocol, 'both'),
                   'cas': len(ctx.get_ca_certs()), 'check_hostname': bool(ctx.check_hostname)}
    a['distinct'] = one.client_context is not one.server_context
    bare_client = ssl.SSLContext(ssl.PROTOCOL_TLS_CLIENT)
    bare_client.check_hostname = False
    bare_client.verify_mode = ssl.CERT_NONE
    other_client = ssl.SSLContext(ssl.PROTOCOL_TLS_CLIENT)
    other_client.check_hostname = False
    other_client.verify_mode = ssl.CERT_NONE
    other_client.load_cert_chain(FIX / 'other_cert.pem', FIX / 'other_key.pem')
    other_server = ssl.SSLContext(ssl.PROTOCOL_TLS_SERVER)
    other_server.load_cert_chain(FIX / 'other_cert.pem', FIX / 'other_key.pem')
    a['hs'] = {'mutual': handshake(one.client_context, two.server_context),
               'nocert_client': handshake(bare_client, one.server_context),
               'untrusted_client': handshake(other_client, one.server_context),
               'untrusted_server': handshake(one.client_context, other_server)}
    return {'c': k, 'a': a}


# --------------------------------------------------------------------------- soap client cases
def drive_client(payload: dict) -> dict:
    import http.client

    from sdc11073 import loghelper
    from sdc11073.definitions_sdc import SdcV1Definitions
    k = payload['c']
    a = {'exc': '', 'scheme': '', 'same_ctx': False}
    ctx = mk_container().client_context if k['ctx'] == 'client' else None
    logger = loghelper.get_logger_adapter('sdc.verif.c19')
    try:
        if k['cls'] == 'SoapClient':
            from sdc11073.pysoap.soapclient import SoapClient
            cl = SoapClient('127.0.0.1:1', 1, logger, ctx, SdcV1Definitions, None)
            conn = cl._mk_http_connection()  # noqa: SLF001  builds the connection object, does not connect
            is_tls = isinstance(conn, http.client.HTTPSConnection)
            a['scheme'] = 'https' if is_tls else 'http'
            a['same_ctx'] = (getattr(conn, '_context', None) is ctx) if ctx is not None else not is_tls
        else:
            from sdc11073.pysoap.soapclient_async import SoapClientAsync
            cl = SoapClientAsync('127.0.0.1:1', 1, logger, ctx, SdcV1Definitions, None)

            async def probe():
                session = await cl._mk_http_connection()  # noqa: SLF001  a session object, nothing is connected
                try:
                    return str(session._base_url.scheme), session.connector._ssl  # noqa: SLF001
                finally:
                    await session.close()
            scheme, used = asyncio.run(probe())
            a['scheme'] = scheme
            a['same_ctx'] = (used is ctx) if ctx is not None else not isinstance(used, ssl.SSLContext)
    except Exception as ex:  # noqa: BLE001
        a['exc'] = f'{type(ex).__name__}: {ex}'[:200]
    return {'c': k, 'a': a}


def drive_sink(payload: dict) -> dict:
    """A TLS provider and a subscriber that names its event sinks with the schemes of the case."""
    from decimal import Decimal

    from sdc11073 import loghelper
    from sdc11073.consumer.subscription import ConsumerSubscription
    from sdc11073.definitions_sdc import SdcV1Definitions
    from sdc11073.pysoap.msgfactory import MessageFactory
    from sdc11073.pysoap.msgreader import MessageReader
    from sdc11073.xml_types import eventing_types as evt
    from sdc11073.xml_types.dpws_types import DeviceEventingFilterDialectURI
    from verif.loopback import FakeHttpServer, mk_client_class
    from verif.pair import Pair
    k = payload['c']
    a = {'exc': '', 'contacts': [], 'attempts': 0}

    class Sink:
        def do_post(self, headers, path, peer, data):  # noqa: ARG002
            return 200, 'Ok', b''
    pair = None
    try:
        cont = mk_container()
        pair = Pair(with_consumer=False, provider_ssl=cont, async_mgr=k['mgr'].startswith('async'),
                    reference_params=k['mgr'].endswith('_ref'))
        net = pair.net
        sinks = {'127.0.0.1:10011': 'notify', '127.0.0.1:10021': 'end'}
        for netloc, what in sinks.items():
            scheme = k['notify'] if what == 'notify' else (k['endto'] if k['endto'] != 'none' else 'https')
            srv = FakeHttpServer(net, '127.0.0.1', int(netloc.split(':')[1]), scheme)
            srv.dispatcher.register_instance('sink', Sink())
        logger = loghelper.get_logger_adapter('sdc.verif.c19')
        factory = MessageFactory(SdcV1Definitions, [], logger, validate=True)
        reader = MessageReader(SdcV1Definitions, [], logger, validate=True)
        client = mk_client_class(net, 'subscriber')('127.0.0.1:10001', 5, logger, cont.client_context,
                                                    SdcV1Definitions, reader)
        hosted = pair.provider.hosted_services.dpws_hosted_services['StateEvent'].mk_dpws_hosted_instance()
        ft = evt.FilterType()
        ft.text = SdcV1Definitions.Actions.EpisodicMetricReport
        ft.Dialect = DeviceEventingFilterDialectURI.ACTION
        end_to = None if k['endto'] == 'none' else f"{k['endto']}://127.0.0.1:10021/sink/end/1"
        sub = ConsumerSubscription(factory, SdcV1Definitions.data_model, lambda addr: client, hosted, ft,
                                   f"{k['notify']}://127.0.0.1:10011/sink/notify/1", end_to, '')
        sub.subscribe(expires=60)
        if not sub.is_subscribed:
            raise MachineryError(f'sink case {k}: Subscribe was not accepted')
        n0, w0 = len(net.clients), len(net.log)
        try:
            with pair.mdib.metric_state_transaction() as mgr:
                mgr.get_state('numeric.ch0.vmd0').MetricValue.Value = Decimal(7)
        except Exception as ex:  # noqa: BLE001
            # (the synchronous manager lets an SSL error of the delivery travel up into the committing thread: not a
            # matter of C19 - the connection was attempted under TLS, which is what is judged here)
            a['delivery_error'] = type(ex).__name__
        pair.stop(send_subscription_end=True)
        pair = None
        for cl in net.clients[n0:]:
            if getattr(cl, 'local', '') == 'provider' and cl.netloc in sinks:
                ctx = cl._ssl_context  # noqa: SLF001
                a['contacts'].append({'what': 'client:' + sinks[cl.netloc], 'tls': ctx is not None,
                                      'ctx': ctx is cont.client_context, 'scheme': 'https' if ctx is not None else 'http'})
        for w in net.log[w0:]:
            if w.src == 'provider' and w.dst in sinks:
                a['contacts'].append({'what': 'message:' + sinks[w.dst], 'tls': bool(w.tls), 'ctx': bool(w.tls),
                                      'scheme': 'https' if w.tls else 'http'})
        a['attempts'] = len(a['contacts'])
    except MachineryError:
        raise
    except Exception as ex:  # noqa: BLE001
        a['exc'] = f'{type(ex).__name__}: {ex}'[:200]
    finally:
        if pair is not None:
            pair.stop()
    return {'c': k, 'a': a}


def drive_second(payload: dict) -> dict:
    """Enforcing consumer, TLS provider with an alternative host name; the numeric address does not answer TLS."""
    from verif.c19_helpers import ALT_HOST, IP, TlsPair
    k = payload['c']
    a = {'exc': '', 'events': []}
    cfg = {'ptls': 'on', 'ctls': 'enforced', 'psrv': k['psrv'], 'csrv': 'shared', 'alt': 'set', 'peer': 'yes', 'mgr': k['mgr']}
    tp = TlsPair(cfg)
    try:
        tp.provider.publish()
        port = tp.provider.get_xaddrs()[0].split('//')[1].split('/')[0].split(':')[1]
        if k['what'] == 'hostile_second':
            tp.net.hostile_netlocs.add(f'{IP}:{port}')      # the same server, reached under its numeric address
        else:
            tp.net.wsdl_elsewhere = True                    # every hosted service announces its WSDL elsewhere
        tp.mk_consumer()
        n0 = len(tp.net.events)
        from verif.c13_helpers import SocketGuard
        guard = SocketGuard()
        try:
            with guard:       # whatever is opened besides the consumer's soap clients is a connection without its context
                tp.start_consumer()
        except Exception as ex:  # noqa: BLE001  an enforcing consumer may (must) give up
            a['gave_up'] = type(ex).__name__
        for kind, what in guard.attempts:
            a['events'].append({'ev': 'foreign:' + kind, 'second': True, 'ctx': 'none', 'out': what[:80], 'alt': False})
        for e in tp.net.events[n0:]:
            if e['party'] == 'consumer':
                a['events'].append({'ev': e['ev'], 'second': e['netloc'].startswith(IP + ':'), 'ctx': e['ctx'],
                                    'out': e['out'], 'alt': e['netloc'].startswith(ALT_HOST + ':')})
    except MachineryError:
        raise
    except Exception as ex:  # noqa: BLE001
        a['exc'] = f'{type(ex).__name__}: {ex}'[:200]
    finally:
        tp.close()
    return {'c': k, 'a': a}


# --------------------------------------------------------------------------- TLC side
ACTIONS = ['ConnectTls', 'ConnectPlain', 'Fallback', 'ConnectFails', 'Hosted', 'Subscribe', 'Probe',
           'NotifyDelivered', 'NotifyFails', 'Renew', 'Operate', 'Unsubscribe', 'StopWithEnd', 'StopSilent', 'Retry', 'RestartHostile']


def cases_of(run, cfg: str, n_cfg: int):
    res = run_tlc('Tls', cfg, workers=1, coverage=True, timeout=600)
    run.add_tlc(res, ACTIONS)
    seen, out = set(), []
    for p in json_lines(res.stdout, 'CASE'):
        key = json.dumps(p['c'], sort_keys=True)
        if key not in seen:
            seen.add(key)
            out.append(p)
    kinds = {k: [p for p in out if p['c']['kind'] == k] for k in ('cfg', 'cert', 'client', 'sink', 'second')}
    sizes = {k: len(v) for k, v in kinds.items()}
    if sizes != {'cfg': n_cfg, 'cert': 8, 'client': 4, 'sink': 24, 'second': 16}:
        raise MachineryError(f'{cfg}: TLC enumerated {sizes}, expected cfg={n_cfg} cert=8 client=4 sink=24 second=16')
    if res.distinct < len(out):
        raise MachineryError(f'{cfg}: {res.distinct} states for {len(out)} cases')
    return kinds


def strip(trace: list[dict]) -> list[dict]:
    """What TLC reads (urls / free text stay in python for the report)."""
    out = []
    for r in trace:
        if 'c' in r:
            out.append({k: v for k, v in r.items() if k in ('phase', 'c', 'a')} | {'phase': r.get('phase', 'init')})
        else:
            out.append({'phase': r['phase'], 'reached': r['reached'],
                        'adv': [{k: a[k] for k in ('party', 'kind', 'scheme')} for a in r['adv']],
                        'ev': r['ev'], 'srv': r['srv']})
    return out


def judge(run, traces: list[list[dict]], payloads: list[dict]):
    rejects = tracecheck.validate(run, 'TlsTrace', 'TlsTrace.cfg', [strip(t) for t in traces], timeout=900)
    # property clauses first; a sanity clause (harness against model) that fails in a trace WITHOUT a rejected property
    # clause means the check cannot vouch for that trace: machinery failure (after the violations were recorded a
    # behaviour that differs from the model is a consequence of the violation, not a second problem)
    sanity = [(ti, li, cl) for ti, li, cl in rejects if cl.startswith('SANITY:')]
    rejects = [r for r in rejects if not r[2].startswith('SANITY:')]
    violating = {ti for ti, _, _ in rejects}
    unexplained = [r for r in sanity if r[0] not in violating]
    run.note('sanity_clauses_failed_in_violating_traces', len(sanity) - len(unexplained))
    seen = set()
    for ti, li, clause in sorted(rejects):
        c = payloads[ti]['c']
        rec = traces[ti][li]
        kind = c['kind']
        run.count(f'rejected_clauses_{kind}')
        if kind == 'cfg':
            base, _, rest = clause.partition(':')
            party = rest.split(':')[0] if rest else 'consumer'
            descr = {'check': 'session', 'clause': clause}
            descr.update({'ptls': c['ptls']} if party == 'provider' else {'ctls': c['ctls']})
            if base != 'advertised_https':
                descr['phase'] = rec['phase']
            if base == 'advertised_https':
                party, _, akind = rest.partition(':')
                bad = [a for a in rec['adv'] if a['party'] == party and a['kind'] == akind and a['scheme'] != 'https']
                what = (f'{party} with TLS configured advertises {bad[0]["url"] if bad else "?"} ({akind}) in phase '
                        f'{rec["phase"]}')
            elif base == 'own_server_tls':
                descr['srv'] = c['psrv'] if rest == 'provider' else c['csrv']
                what = f'own http server of the {rest} is not a TLS server: {rec["srv"]}'
            else:
                bad = [e for e in rec['ev'] if e['ctx'] == 'none' or not e['ctx'].endswith('.client')]
                what = (f'clause {clause} fails in phase {rec["phase"]}: connection events '
                        f'{[(e["party"], e["ev"], e["ctx"], e["out"]) for e in bad][:4]}')
            what += f' [configuration {c}]'
        elif kind == 'cert':
            descr = {'check': 'certloader', 'clause': clause, 'entry': c['entry'], 'ca': c['ca']}
            what = f'certloader case {c}: clause {clause} fails, actual {rec["a"]}'
        elif kind == 'second':
            descr = {'check': 'second', 'clause': clause, 'mgr': c['mgr'], 'psrv': c['psrv'], 'what': c['what']}
            bad = [x for x in rec['a']['events'] if x['ctx'] != 'consumer.client']
            what = (f'enforcing consumer, second network location of the provider does not answer TLS {c}: clause '
                    f'{clause} fails: {bad[:3]} {rec["a"]["exc"]}')
        elif kind == 'sink':
            descr = {'check': 'sink', 'clause': clause, 'mgr': c['mgr'], 'notify': c['notify'], 'endto': c['endto']}
            bad = [x for x in rec['a']['contacts'] if not (x['tls'] and x['ctx'])]
            what = (f'TLS provider and a subscriber naming its sinks {c}: clause {clause} fails, contacts not under the '
                    f'client context: {bad[:3]} {rec["a"]["exc"]}')
        else:
            descr = {'check': 'soapclient', 'clause': clause, 'cls': c['cls'], 'ctx': c['ctx']}
            what = f'soap client case {c}: clause {clause} fails, actual {rec["a"]}'
        key = json.dumps(descr, sort_keys=True)
        replay = {'kind': kind, 'payload': payloads[ti], 'trace': traces[ti], 'failing_record': li} \
            if key not in seen else None
        seen.add(key)
        run.violation(descr, what, replay)
    if unexplained and not run.violations:
        ti, li, cl = unexplained[0]
        raise MachineryError(f'{len(unexplained)} sanity clause(s) failed (harness and model disagree), first: {cl} for '
                             f'{payloads[ti]["c"]} record {li}: {json.dumps(traces[ti][li], default=str)[:1500]}')
    if unexplained:
        run.note('sanity_clauses_failed_in_other_traces', sorted({cl for _, _, cl in unexplained})[:8])


def drive(payload: dict) -> tuple[list[dict], int]:
    kind = payload['c']['kind']
    if kind == 'cfg':
        return drive_cfg(payload)
    if kind == 'sink':
        return [{'phase': 'init', **drive_sink(payload)}], 3
    if kind == 'second':
        return [{'phase': 'init', **drive_second(payload)}], 3
    rec = drive_cert(payload) if kind == 'cert' else drive_client(payload)
    return [{'phase': 'init', **rec}], (10 if kind == 'cert' else 1)


# --------------------------------------------------------------------------- entry point
def check(run, replay_path=None):
    import logging
    logging.getLogger('sdc').setLevel(logging.CRITICAL)
    if replay_path:
        with open(replay_path) as f:
            rp = json.load(f)['replay']
        trace, calls = drive(rp['payload'])
        run.evaluations = calls
        judge(run, [trace], [rp['payload']])
        run.sample({'replayed': rp['payload']['c'], 'records': [r.get('phase') for r in trace]})
        return

    # ---- spec -> code: the model is checked (laws, coverage of every action) and enumerates the cases
    n_cfg = run.pick(96 + 4, 384 + 16)
    kinds = cases_of(run, run.pick('Tls.cfg', 'Tls_thorough.cfg'), n_cfg)
    # second traces: a session that is restarted after the environment has turned hostile
    restarts = [dict(p, restart=True) for p in kinds['cfg'] if p['c']['peer'] == 'yes' and p['mode'] in ('tls', 'plain')]
    payloads = kinds['cert'] + kinds['client'] + kinds['sink'] + kinds['second'] + kinds['cfg'] + restarts
    traces, calls = [], 0
    t0 = time.time()
    for p in payloads:
        trace, n = drive(p)
        traces.append(trace)
        calls += n
    run.note('drive_wall_s', round(time.time() - t0, 1))
    run.evaluations = calls

    # ---- what was exercised (vacuity)
    cfg_traces = [(p, t) for p, t in zip(payloads, traces) if p['c']['kind'] == 'cfg']
    stats = {'configurations': len(cfg_traces),
             'sessions_established': sum(1 for _, t in cfg_traces if len(t) > 4),
             'first_connect_failed_then_retried': sum(1 for _, t in cfg_traces if t[2]['phase'] == 'retry'),
             'sessions_restarted_in_hostile_environment': sum(1 for _, t in cfg_traces if t[-2]['phase'] == 'restart'),
             'plaintext_connects_in_second_life': sum(1 for _, t in cfg_traces for r in t[1:]
                                                      if r['phase'] in ('retry', 'restart')
                                                      for e in r['ev'] if e['ev'] == 'connect' and e['ctx'] == 'none'),
             'fallback_to_plaintext_after_sslerror': sum(1 for p, _ in cfg_traces
                                                         if p['c']['ctls'] == 'optional' and p['mode'] == 'plain'),
             'tls_provider_facing_plaintext_sink': sum(1 for p, t in cfg_traces if len(t) > 4
                                                       and p['c']['ptls'] == 'on' and not p['delivers']),
             'phase_records': sum(len(t) - 2 for _, t in cfg_traces),
             'advertised_addresses_seen': sum(len(r['adv']) for _, t in cfg_traces for r in t[1:]),
             'connection_events_seen': sum(len(r['ev']) for _, t in cfg_traces for r in t[1:]),
             'own_http_servers_seen': sum(len(r['srv']) for _, t in cfg_traces for r in t[1:])}
    kinds_seen: dict[str, int] = {}
    malformed = set()
    for _, t in cfg_traces:
        for r in t[1:]:
            for a in r['adv']:
                k = f'{a["party"]}:{a["kind"]}:{a["scheme"]}'
                kinds_seen[k] = kinds_seen.get(k, 0) + 1
                if not a['wellformed']:
                    malformed.add(f'{a["kind"]}: {a["url"]}')
    stats['advertised_by_party_kind_scheme'] = dict(sorted(kinds_seen.items()))
    run.note('session_stats', stats)
    if malformed:
        run.note('observation_malformed_addresses_not_judged_by_C19', sorted(malformed)[:4])
    for k in ('cfg', 'cert', 'client', 'sink', 'second'):
        run.count(f'rejected_clauses_{k}', 0)
    for p, t in zip(payloads, traces):
        c = p['c']
        if c['kind'] == 'cfg':
            run.distinct_traces.add((json.dumps(c, sort_keys=True), bool(p.get('restart')),
                                     tuple((r['phase'], r['reached'], tuple((e['party'], e['ev'], e['ctx'], e['out'])
                                                                            for e in r['ev'])) for r in t[1:])))
        else:
            run.distinct_traces.add(json.dumps(c, sort_keys=True))

    def pick(**want):
        return next(i for i, p in enumerate(payloads) if all(p['c'].get(k) == v for k, v in want.items()))

    i = pick(kind='cfg', ptls='on', ctls='enforced', psrv='own', csrv='own', alt='set', peer='yes')
    run.sample({'case': payloads[i]['c'],
                'advertised': sorted({(a['party'], a['kind'], a['url'].split('/0000')[0]) for r in traces[i][1:]
                                      for a in r['adv']}),
                'own_servers': traces[i][-1]['srv']})
    i = pick(kind='cfg', ptls='on', ctls='optional', psrv='shared', csrv='shared', alt='none', peer='no')
    run.sample({'case': payloads[i]['c'], 'model': {k: payloads[i][k] for k in ('mode', 'delivers')},
                'events': [(r['phase'], [(e['party'], e['ev'], e['ctx'], e['out']) for e in r['ev']][:6])
                           for r in traces[i][1:] if r['phase'] in ('metadata', 'notification')]})
    i = pick(kind='cert', entry='from_folder', ca='given', cyphers='given')
    run.sample({'case': payloads[i]['c'], 'actual': traces[i][0]['a']})

    # ---- code -> spec: TLC judges every recorded execution
    judge(run, traces, payloads)

    run.note('exhaustive', True)
    run.assumptions += [
        'a shared http server supplied by the application matches the TLS configuration of the party it is given to '
        '(https iff the party has an ssl context container), except psrv = mismatch: a plaintext shared server handed '
        'to a TLS provider (what the provider advertises is judged, the session cannot come about)',
        'peer answers TLS = no is realised as the downgrade environment (every TLS handshake fails with ssl.SSLError, '
        'every server answers plaintext requests), also for own servers that were wrapped with a server context',
        'own http server: the real HttpServerThreadBase runs; its socket server class _ThreadingHTTPServer is replaced '
        '(no listening socket; one unbound, unconnected socket object per server for SSLContext.wrap_socket)',
        'the loop-back soap client stands in for SoapClient / SoapClientAsync (their https decision is bound by the '
        'separate soap client cases); no real TLS handshake happens on the loop-back transport',
        'alternative host name = "localhost" for provider and consumer together',
        'WS-Discovery is the recording stub of verif/pair.py (xaddrs handed to publish_service are judged)',
        'certloader: self-signed test certificate used as its own CA file; check_hostname is recorded, not judged',
    ]
