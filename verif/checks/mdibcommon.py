"""Shared driver of C02 / C03 (and the MDIB-level part of C11): Mdib.tla behaviours -> real ProviderMdib -> MdibTrace."""
from __future__ import annotations

import json
import os

from verif import tracecheck
from verif.mdibharness import MdibReplayer, apply_tok, canon
from verif.tlc import MachineryError, json_lines, run_tlc

SIM_H = ['vmd', 'ch', 'm1', 'dA', 'dB', 'pc', 'al', 'op', 'rt', 'asy', 'sco', 'm2']
SIM_CH = ['c1', 'c2']

FAMILY = {
    'C02': {'mver_step', 'mver_bump', 'empty_no_bump', 'untouchedD', 'untouchedS', 'untouchedC', 'untouchedRest',
            'monotoneD', 'monotoneS', 'monotoneC', 'bumpD', 'bumpS', 'bumpC', 'ref', 'ref_whole_mdib', 'init'},
    # (untouched*: what a refused call named is not part of the footprint of the commit - "if the API rejects a call ...
    # exactly what they were before")
    'C03': {'begin_noop', 'atomic_abort', 'atomic_commit_failed', 'isolated_in_tx', 'isolated_copy',
            'published_unchanged', 'untouchedD', 'untouchedS', 'untouchedC'},
    'C11': {'lookups_agree'},
}

MC_ACTIONS = ['Begin', 'AbortBy', 'Commit', 'SGet', 'SetSTok', 'SUnget', 'SWriteEntityAs', 'SWriteEntities', 'DWriteEntities', 'DRemoveEntity', 'CGet', 'CMk', 'SetCTok',
              'CDisAll', 'CEntUpdate', 'CEntNew', 'CEntDelete', 'DGet', 'SetDTok', 'DAdd', 'DRemove', 'DGetState', 'DWriteEntityAs', 'DNewEntity', 'MutateCopy',
              'KeepEntity', 'DWriteEntityCtx']


class C03Replayer(MdibReplayer):
    """Adds the MutateCopy action and the 'published results unchanged' observation."""

    def __init__(self, *a, **kw):
        super().__init__(*a, **kw)
        self.results = []       # (TransactionResult, canonical snapshot)
        self.last_handed = {}
        self.mdib_results = []
        from sdc11073 import observableproperties as op
        op.bind(self.mdib, transaction=self._on_transaction)

    def _on_transaction(self, result):
        if result is not None:
            self.results.append((result, self._canon_result(result)))
            self.results = self.results[-3:]

    @staticmethod
    def _canon_result(result):
        out = []
        for name in ('descr_updated', 'descr_created', 'descr_deleted', 'metric_updates', 'alert_updates',
                     'comp_updates', 'ctxt_updates', 'op_updates', 'rt_updates'):
            out.append([canon(x) for x in getattr(result, name)])
        return json.dumps(out, sort_keys=True, default=str)

    def published_same(self, skip_last=False):
        items = self.results[:-1] if skip_last else self.results
        return all(self._canon_result(r) == snap for r, snap in items)

    def _do_Commit(self, rec):
        self.last_handed = dict(self.handed)
        super()._do_Commit(rec)

    def _do_MutateCopy(self, rec):
        t = rec['t'] + 7
        src = rec['src']
        if src == 'getter':     # objects handed out by the getters of the last transaction
            for obj in self.last_handed.values():
                if hasattr(obj, 'sorted_container_properties'):
                    apply_tok(obj, t)
                else:   # entity
                    apply_tok(obj.state, t) if hasattr(obj, 'state') else None
        elif src == 'entity':   # fresh entities from the entity getter
            for a in self.proj.handles:
                try:
                    ent = self.mdib.entities.by_handle(self.conc(a))
                except KeyError:   # descriptor without state: the entity getter cannot build an entity
                    continue
                if ent is None:
                    continue
                apply_tok(ent.descriptor, t)
                if ent.is_multi_state:
                    for st in ent.states.values():
                        apply_tok(st, t)
                else:
                    apply_tok(ent.state, t)
        elif src == 'kept_raw':   # the kept entity object as it is (it may have been written in a transaction before)
            ent = self.kept
            apply_tok(ent.descriptor, t)
            for st in (ent.states.values() if ent.is_multi_state else [ent.state]):
                if st is not None:
                    apply_tok(st, t)
        elif src in ('kept_upd', 'kept_new'):   # the kept entity, refreshed from the MDIB with update(), then changed
            ent = self.kept
            ent.update()
            if src == 'kept_upd':
                apply_tok(ent.descriptor, t)
                for st in (ent.states.values() if ent.is_multi_state else [ent.state]):
                    apply_tok(st, t)
            else:   # only what update() newly put into the entity (states that did not exist when it was obtained)
                if ent.is_multi_state:
                    for h, st in ent.states.items():
                        if h not in self.kept_states:
                            apply_tok(st, t)
            self.kept_states = set(getattr(ent, 'states', {}) or {})
        elif src == 'result':   # members of the last transaction result
            if self.results:
                res = self.results[-1][0]
                for name in ('descr_updated', 'descr_created', 'metric_updates', 'alert_updates', 'comp_updates',
                             'ctxt_updates', 'op_updates', 'rt_updates'):
                    for obj in getattr(res, name):
                        apply_tok(obj, t)
                # the result object itself was changed on purpose: re-baseline it
                self.results[-1] = (res, self._canon_result(res))

    def step(self, rec):
        out = super().step(rec)
        out['published_same'] = self.published_same()
        if not out['published_same']:   # report a change once, at the step that made it
            self.results = [(r, self._canon_result(r)) for r, _ in self.results]
        return out


def situation_labels(beh) -> set:
    """Coverage labels of one behaviour: the situation labels the specification attached to every finished
    transaction (Mdib.tla SitOf), pairs of consecutive transaction kinds, pairs of consecutive API calls inside a
    transaction (with their result) and the hand-out channel of a MutateCopy after a transaction kind."""
    out = set()
    kinds = []
    prev = None
    kind = None
    for r in beh:
        act = r['act']
        if act == 'Begin':
            kind = r['kind']
            prev = None
            continue
        if act in ('Commit', 'Abort'):
            out.update(r.get('sit', ()))
            kinds.append(f'{kind}:{act}')
            if len(kinds) > 1:
                out.add(f'P:{kinds[-2]}>{kinds[-1]}')
            prev = None
            continue
        if act == 'MutateCopy':
            out.add(f'M:{r["src"]}:{kinds[-1] if kinds else "-"}')
            out.update(r.get('sit', ()))
            continue
        out.update(r.get('sit', ()))
        cur = f'{act}:{r.get("res", "ok")}'
        if prev is not None:
            out.add(f'A:{kind}:{prev}>{cur}')
        prev = cur
    return out


def select_covering(behs, num, seed, k=2, prefixes=None):
    """Greedy k-fold set cover over the situation labels (every label is covered by k different behaviours where the
    pool has that many; shortest behaviour first among equals), then a seeded random fill up to `num` behaviours."""
    import random
    labs = [situation_labels(b) for b in behs]
    if callable(prefixes):
        labs = [{x for x in ls if prefixes(x)} for ls in labs]
    elif prefixes:   # only the situations the caller is interested in have to be covered
        labs = [{x for x in ls if x.startswith(tuple(prefixes))} for ls in labs]
    need = {}
    for ls in labs:
        for x in ls:
            need[x] = min(k, need.get(x, 0) + 1)
    total = len(need)
    chosen, chosen_set = [], set()
    order = sorted(range(len(behs)), key=lambda i: len(behs[i]))
    while any(need.values()):
        best, gain = None, 0
        for i in order:
            if i in chosen_set:
                continue
            g = sum(1 for x in labs[i] if need.get(x, 0) > 0)
            if g > gain:
                best, gain = i, g
        if best is None:
            break
        chosen.append(best)
        chosen_set.add(best)
        for x in labs[best]:
            if need.get(x, 0) > 0:
                need[x] -= 1
    rest = [i for i in range(len(behs)) if i not in chosen_set]
    random.Random(seed).shuffle(rest)
    fill = rest[:max(0, num - len(chosen))]
    return [behs[i] for i in chosen + fill], {'labels': total, 'fold': k, 'cover': len(chosen), 'fill': len(fill),
                                              'pool': len(behs)}


def generate(run, num, depth, seed, cfg='Mdib_sim.cfg', module='MdibMC', pool=None, fold=2, prefixes=None):
    """`pool` behaviours are simulated by TLC; the ones replayed are chosen to cover every situation label of the pool
    (select_covering) and filled up to `num` at random (more than `num` if the cover needs more)."""
    pool = pool or max(num, run.pick(3000, 12000))
    res = run_tlc(module, cfg, workers=1, simulate=f'num={pool}', depth=depth, seed=seed, timeout=1800)
    run.add_tlc(res)
    behs = json_lines(res.stdout, 'BEH')
    if len(behs) < pool // 2:
        raise MachineryError(f'expected about {pool} behaviours from TLC, got {len(behs)}')
    behs, stats = select_covering(behs, num, seed, k=fold, prefixes=prefixes)
    run.note('situation_coverage', stats)
    if cfg == 'Mdib_sim.cfg':
        behs = descriptor_purposes(run) + behs
    return behs


def descriptor_purposes(run):
    """Test purposes: a shortest history for every situation of ONE descriptor transaction of up to four calls
    (breadth-first TLC run, Mdib_dpurpose.cfg) - e.g. two children of one parent created / deleted and the parent
    updated after them, which random simulation all but never produces."""
    res = run_tlc('MdibMC', 'Mdib_dpurpose.cfg', workers=1, timeout=1800)
    run.add_tlc(res)
    behs = json_lines(res.stdout, 'BEH')
    got = {lab for b in behs for lab in situation_labels(b)}
    need = {'P:2:0:commit', 'P:0:2:commit', 'P:1:1:commit'}
    if not need <= got:
        raise MachineryError(f'descriptor transaction purposes not reached in Mdib.tla: {sorted(need - got)}')
    run.note('descriptor_transaction_purposes', len(behs))
    # ... and for the situations that need a history of transactions (Mdib_cpurpose.cfg: context + descriptor
    # transactions over a two-descriptor universe), e.g. a context descriptor updated while it owns a state that an
    # earlier transaction disassociated and unbound
    res = run_tlc('MdibMC', 'Mdib_cpurpose.cfg', workers=1, timeout=1800)
    run.add_tlc(res)
    more = json_lines(res.stdout, 'BEH')
    if not any('U:upd:owns-unbound-state:commit' in situation_labels(b) for b in more):
        raise MachineryError('history purpose U:upd:owns-unbound-state:commit not reached in Mdib.tla')
    run.note('history_purposes', len(more))
    # ... and for the kept entity object: keep it, write it in a transaction of its kind, commit / abort, change it
    res = run_tlc('MdibMC', 'Mdib_kpurpose.cfg', workers=1, timeout=1800)
    run.add_tlc(res)
    kept = json_lines(res.stdout, 'BEH')
    if not any('K:raw:rt:written:Commit' in situation_labels(b) for b in kept):
        raise MachineryError('kept-entity purpose K:raw:rt:written:Commit not reached in Mdib.tla')
    run.note('kept_entity_purposes', len(kept))
    return behs + more + kept


def lifecycle_behaviours(run):
    """Test purposes: one (shortest) behaviour per life-cycle word of a dynamic descriptor (add / delete / update /
    state update, committed or aborted, up to 5 transactions) found by a breadth-first TLC run over a tiny universe."""
    from verif.tlc import printed_values
    res = run_tlc('MdibMC', 'Mdib_trk.cfg', workers=1, timeout=1800)
    run.add_tlc(res)
    words = {}
    for v in printed_values(res.stdout, 'TRK'):
        w = ''.join(v[1])
        if w not in words:
            words[w] = json.loads(v[2])
    if len(words) < 500:
        raise MachineryError(f'expected > 500 life-cycle words, got {len(words)}')
    run.note('lifecycle_words_reachable', len(words))
    if run.quick:
        # greedy cover of all 3-letter factors (every order of three consecutive life-cycle steps), plus a seeded sample
        import random
        rnd = random.Random(run.seed)
        all_words = sorted(words)

        def grams(w):
            return {w[i:i + 3] for i in range(len(w) - 2)} or {w}
        left = set().union(*[grams(w) for w in all_words])
        chosen = []
        while left:
            best = max(all_words, key=lambda w: (len(grams(w) & left), -len(w), w))
            chosen.append(best)
            left -= grams(best)
        # every history that ends with the re-creation of the deleted handle (the case C02 singles out)
        import re
        chosen += [w for w in all_words if re.search('D.*A$', w) and w not in set(chosen)]
        rest = [w for w in all_words if w not in set(chosen)]
        rnd.shuffle(rest)
        chosen += rest[:60]
    else:
        chosen = sorted(words)
    run.note('lifecycle_words_replayed', len(chosen))
    return [words[w] for w in chosen]


def record(behs):
    traces = []
    from verif.mdibharness import MAPPINGS, load_mdib
    for i, beh in enumerate(behs):
        fixture, map_d = MAPPINGS['two' if i % 3 == 2 else 'one']      # every third history on the two-MDS fixture
        rp = C03Replayer(SIM_H, SIM_CH, mdib=load_mdib(fixture), map_d=map_d)
        traces.append(rp.run(beh))
    return traces


def strip(trace):
    """Drop what the trace spec does not need (keeps the JSON small)."""
    out = []
    for r in trace:
        r2 = {k: v for k, v in r.items() if k not in ('exc', 'model_res', 'obs', 'sit')}
        out.append(r2)
    return out


def model_check(run, thorough_cfg=None):
    res = run_tlc('MdibMC', 'Mdib_mc.cfg', coverage=True, timeout=3000)
    run.add_tlc(res, MC_ACTIONS)
    if thorough_cfg and not run.quick:
        # two exhaustive runs that finish in minutes: wide (2 transactions of 2 calls, three kept entities) and deep
        # (3 transactions of 1 call); 3 x 2 does not finish within hours (> 10^8 states)
        for cfg in (thorough_cfg, 'Mdib_mc_deep.cfg'):
            run.add_tlc(run_tlc('MdibMC', cfg, coverage=False, timeout=3600))


def run_family(run, pid, extra_behaviours=None, with_model=True, lifecycle=True, num=None, fold=2, prefixes=None):
    """Common body of the C02 and C03 checks (and of the transaction part of C11)."""
    if with_model:
        model_check(run, 'Mdib_mc_thorough.cfg')
    num = num or run.pick(200, 6000)
    behs = generate(run, num, run.pick(30, 40), run.seed, fold=fold, prefixes=prefixes)
    if lifecycle:
        behs = lifecycle_behaviours(run) + behs
    if extra_behaviours:
        behs = extra_behaviours + behs
    traces = record(behs)
    rejects = tracecheck.validate(run, 'MdibTrace', 'MdibTrace.cfg', [strip(t) for t in traces], chunk=1500)
    fam = FAMILY[pid]
    mine = [r for r in rejects if r[2] in fam]
    other = [r for r in rejects if r[2] not in fam]
    run.note('rejected_steps_of_other_properties', len(tracecheck.first_rejects(other)))
    n_match = sum(1 for t in traces for r in t[1:] if r.get('model_res', 'ok') == ('ok' if r['res'] == 'ok' else r['res']))
    run.note('steps_matching_operational_spec_result', n_match)
    run.note('steps_total', sum(len(t) - 1 for t in traces))
    for t in traces:
        sig = tuple((r['act'], r.get('h'), r.get('c'), r.get('kind'), r['res']) for r in t)
        if any(r['act'] == 'Commit' for r in t):
            run.distinct_traces.add(sig)
    run.sample([{k: v for k, v in r.items() if k != 'post'} for r in traces[0][:12]])
    by_trace = {}
    for r in sorted(mine, key=lambda x: (x[0], x[1])):
        by_trace.setdefault(r[0], []).append(r)
    for ti, rs in by_trace.items():
        for (_, li, clause) in rs:
            rec = traces[ti][li]
            tx_ops = []
            for r in traces[ti][:li + 1]:
                if r['act'] == 'Begin':
                    tx_ops = [f"Begin:{r['kind']}"]
                elif r['act'] != 'Init':
                    tx_ops.append(r['act'])
            descr = {'check': 'mdib', 'clause': clause, 'act': rec['act'], 'tx': tx_ops[0] if tx_ops else ''}
            if rec['act'] == 'MutateCopy':
                descr['src'] = rec['src']
            if run.is_known(descr):
                continue   # a listed finding; keep looking for an unlisted one later in the same trace
            run.violation(descr, f'{clause} fails at {rec["act"]} ({" ".join(tx_ops[-6:])})',
                          {'behaviour': behs[ti], 'trace': traces[ti], 'failing_record': li})
            break
    return behs, traces
