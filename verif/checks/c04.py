"""C04 - reports are complete, truthful, schema-valid and delivered in version order.

content: specs/MirrorTrace.tla clauses report_* on the wire messages of every commit (sync + async managers)
order:   specs/Threads.tla (interleavings of recorded thread programs) - see verif/checks/threads.py
"""
from verif.checks import mdibcommon, mirrorcommon


def check(run, replay_path=None):
    mdibcommon.model_check(run)
    variants = [dict(), dict(async_mgr=True)]
    mirrorcommon.run_family(run, 'C04', run.pick(120, 3000), variants, seed_offset=7)
