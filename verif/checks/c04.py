"""C04 - reports are complete, truthful, schema-valid and delivered in version order.

content: specs/MirrorTrace.tla clauses report_* on the wire messages of every commit (sync + async managers)
order:   specs/Threads.tla (interleavings of recorded thread programs) - see verif/checks/threads.py
"""
from verif.checks import mdibcommon, mirrorcommon


ORDER_QUICK = [('W_metric_m1', 'W_metric_m2'), ('W_metric_m1', 'W_comp_vmd', 'W_descr_m1')]
ORDER_THOROUGH = ORDER_QUICK + [('W_metric_m1', 'W_metric_m2', 'W_comp_vmd', 'W_ctx'), ('W_descr_m1', 'W_descr_ch', 'W_ctx'),
                                ('W_metric_m1', 'W_metric_m1', 'W_metric_m2')]


def check(run, replay_path=None):
    mdibcommon.model_check(run)
    variants = [dict(periodic_reports_interval=100000), dict(async_mgr=True, periodic_reports_interval=100000)]
    mirrorcommon.run_family(run, 'C04', run.pick(100, 3000), variants, seed_offset=7)
    # delivery order under concurrently writing threads (all interleavings of the recorded thread programs)
    from verif.checks.c07 import run_scenarios
    scenarios = run.pick(ORDER_QUICK, ORDER_THOROUGH)
    run_scenarios(run, scenarios, run.pick(80, 1500), {'wire_in_version_order'}, prefix='c04')
    run.assumptions += ['order: one subscriber endpoint with several subscriptions; wire order observed at the loop-back client',
                        'periodic store inspected through PeriodicReportsHandler lists (last 3 entries per kind)']
