"""C04 - reports are complete, truthful, schema-valid and delivered in version order.

content: specs/MirrorTrace.tla clauses report_* on the wire messages of every commit (sync + async managers)
order:   specs/Threads.tla (interleavings of recorded thread programs) - see verif/checks/threads.py
"""
from verif.checks import mdibcommon, mirrorcommon


ORDER_QUICK = [('W_metric_m1', 'W_metric_m2'), ('W_metric_m1', 'W_comp_vmd', 'W_descr_m1'), ('W_rt', 'W_metric_m1'),
               ('W_rt', 'W_ctx')]
ORDER_THOROUGH = ORDER_QUICK + [('W_metric_m1', 'W_metric_m2', 'W_comp_vmd', 'W_ctx'), ('W_descr_m1', 'W_descr_ch', 'W_ctx'),
                                ('W_metric_m1', 'W_metric_m1', 'W_metric_m2')]


def slow_subscriber(run):
    """A subscriber that needs several seconds for one notification while another thread commits the next transaction:
    the reports must still arrive in MdibVersion order (sync and async manager, real time, not scheduled)."""
    import threading
    import time
    from decimal import Decimal
    from verif.pair import Pair
    for async_mgr in (True, False):
        pair = Pair(async_mgr=async_mgr)
        arrived = []
        state = {'first': True}
        stall = run.pick(7.0, 12.0)

        def on_post(wire):
            if wire.src == 'provider' and b'EpisodicMetricReport' in wire.data:
                if state['first']:
                    state['first'] = False
                    return ('delay', stall)
            return None
        orig_deliver = pair.net.deliver

        def deliver(wire):
            if wire.src == 'provider' and b'EpisodicMetricReport' in wire.data:
                md = pair.consumer.msg_reader.read_received_message(wire.data)
                arrived.append(md.mdib_version_group.mdib_version)
            return orig_deliver(wire)
        pair.net.deliver = deliver
        pair.net.on_post = on_post

        def commit(value):
            with pair.mdib.metric_state_transaction() as mgr:
                mgr.get_state('numeric.ch0.vmd0').MetricValue.Value = Decimal(value)
        t1 = threading.Thread(target=commit, args=(1,), daemon=True)
        t1.start()
        time.sleep(0.5)
        t2 = threading.Thread(target=commit, args=(2,), daemon=True)
        t2.start()
        t1.join(timeout=stall + 30)
        t2.join(timeout=stall + 30)
        time.sleep(0.3)
        pair.net.on_post = None
        pair.net.deliver = orig_deliver
        alive = t1.is_alive() or t2.is_alive()
        pair.stop()
        run.count('slow_subscriber_runs')
        run.distinct_traces.add(('slow_subscriber', async_mgr))
        if alive:
            from verif.tlc import MachineryError
            raise MachineryError('writer threads did not finish in the slow subscriber scenario')
        ordered = all(arrived[i] <= arrived[i + 1] for i in range(len(arrived) - 1))
        if not ordered or len(arrived) < 2:
            descr = {'check': 'slow_subscriber', 'clause': 'wire_in_version_order' if not ordered else 'report_complete',
                     'manager': 'async' if async_mgr else 'sync'}
            if not run.is_known(descr):
                run.violation(descr, f'one notification stalled {stall} s: reports arrived as MdibVersions {arrived}',
                              {'arrived': arrived, 'stall_s': stall, 'async_mgr': async_mgr})


def check(run, replay_path=None):
    mdibcommon.model_check(run)
    variants = [dict(periodic_reports_interval=100000), dict(async_mgr=True, periodic_reports_interval=100000),
                dict(transport='fullstack', chunk_size=300, periodic_reports_interval=100000)]
    mirrorcommon.run_family(run, 'C04', run.pick(100, 3000), variants, seed_offset=7)
    # delivery order under concurrently writing threads (all interleavings of the recorded thread programs)
    from verif.checks.c07 import run_scenarios
    scenarios = run.pick(ORDER_QUICK, ORDER_THOROUGH)
    run_scenarios(run, scenarios, run.pick(80, 1500), {'wire_in_version_order', 'every_commit_reported_under_its_version', 'request_answered'},
                  prefix='c04')
    # one round of the retrievability-driven periodic report loop against committing transactions: the copies it sends
    # are the states of the MdibVersion the report is labelled with
    periodic = [('P_periodic', 'W_ctx'), ('P_periodic', 'W_metric_m1'), ('P_periodic', 'W_alert_al'),
                ('P_periodic', 'W_comp_vmd'), ('P_periodic', 'W_op_op')]
    run_scenarios(run, periodic, run.pick(20, 1500),
                  {'label_is_a_version_that_existed', 'snapshot_content', 'each_at_most_once', 'request_answered'},
                  prefix='c04p')
    slow_subscriber(run)
    run.assumptions += ['order: one subscriber endpoint with several subscriptions; wire order observed at the loop-back client',
                        'periodic store inspected through PeriodicReportsHandler lists (last 3 entries per kind)']
