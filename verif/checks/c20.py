"""C20 - query services return exactly the selected states and texts.

spec:    specs/Query.tla - reference semantics over an abstract domain, one TLC state per case, laws as invariants:
           SelMdState / SelCtx   handle resolution of GetMdState / GetContextStates by the BICEPS rules (empty list:
                                 all states; context-state handle: that state; descriptor handle: all its states;
                                 GetContextStates + MDS handle: all context states of that MDS; unknown: nothing)
                                 over MDIB variants (one MDS, 3 single-state descriptors - one of them with or
                                 without a state -, 2 context descriptors with 0..2 context states each) and requests
                                 = all sequences of <= 3 handles over {MDS, descriptors, context descriptors, context
                                 states (present or absent in the variant), unknown} (so duplicates and mixed kinds)
           Sat / Matching        a text satisfies every GIVEN constraint of a GetLocalizedText filter (reference,
                                 version, language, text width <=, number of lines <=); LatestGlobal / LatestPerRef
                                 (the unconstrained answer), Languages (GetSupportedLanguages)
                                 over stored text sets ((ref, version) pattern x languages x (width, lines) pattern
                                 + ragged sets + the empty store) x all combinations of the five constraint kinds
binding: spec -> code: TLC prints every case (CASE lines) and the abstract MDIB variants (VARIANTS). This module builds
         each variant on a REAL provider (verif/pair.py; descriptor s3 by a real descriptor transaction, context
         states by real context-state transactions; texts through LocalizationStorage.add of the provider's
         localization service) and sends every request through the REAL consumer service clients
         (GetServiceClient.get_md_state, ContextServiceClient.get_context_states,
         LocalizationServiceClient.get_localized_texts / get_supported_languages) over the loop-back transport
         (real message factory / reader, XSD validation on both sides).
         code -> spec: the MDIB as read from the provider tables, every request and every parsed response (state
         identities in response order; text attributes read from the returned LocalizedText objects) are judged by TLC
         (specs/QueryTrace.tla) with the SAME operators. Nothing is compared in python; python only (a) raises a
         machinery failure for "machinery:*" clauses (harness did not build what the spec asked for), (b) names the
         shape of the request behind a rejected at_most_once clause (repeated handle / descriptor + its state) for
         the finding description, (c) orders rejected records so that the shortest request becomes the replay.
clauses: md_* / ctx_* : total, only_selected, all_selected, at_most_once
         langs_total, langs_only_stored, langs_all_stored
         text_request_sendable (the documented argument types of the client reach the wire), text_total,
         text_from_store, text_ref, text_version, text_lang, text_width, text_lines, text_default_latest
not demanded (acceptance decisions): order of results; completeness of a constrained GetLocalizedText answer (the
         statement says "only texts that satisfy"); uniqueness of texts in an answer; "the latest version" may be read
         per store or per referenced text (both accepted; which one the code follows is noted in the evidence).
--replay <file>: re-drives the single case stored in a replay file and lets TLC judge it.
"""
from __future__ import annotations

import json
import os
import random
import traceback

from verif import tracecheck
from verif.tlc import MachineryError, json_lines, printed_values, run_tlc

# abstract handle -> concrete handle (fixtures/one_mds.xml; dynB is added by a descriptor transaction)
MAP = {'mds': 'mds0', 's1': 'numeric.ch0.vmd0', 's2': 'ac0.vmd0.mds0', 's3': 'dynB', 'cd1': 'PC.mds0',
       'cd2': 'LC.mds0', 'c11': 'pc_1', 'c12': 'pc_2', 'c21': 'lc_1', 'c22': 'lc_2', 'unk': 'no_such_handle'}
S3_PARENT = 'ch0.vmd0'
KINDS = ('ref', 'ver', 'lang', 'width', 'lines')


def exc_info(ex: BaseException) -> dict:
    """Exception class and the innermost sdc11073 function on the stack."""
    where = ''
    for fr in traceback.extract_tb(ex.__traceback__):
        if '/sdc11073/' in fr.filename.replace('\\', '/') and not fr.name.startswith('<'):
            where = fr.name
    return {'exc': type(ex).__name__, 'where': where, 'msg': str(ex).strip().splitlines()[0][:200] if str(ex) else ''}


# --------------------------------------------------------------------------- TLC side (spec -> code)
def cases_of(run, cfg: str, timeout: int = 1500):
    res = run_tlc('Query', cfg, workers=1, timeout=timeout)
    run.add_tlc(res)
    cases = json_lines(res.stdout, 'CASE')
    if not cases or len(cases) != res.distinct:
        raise MachineryError(f'{cfg}: {len(cases)} CASE lines for {res.distinct} states')
    variants = json_lines(res.stdout, 'VARIANTS')
    if not variants:
        raise MachineryError(f'{cfg}: no VARIANTS line')
    return cases, variants[0]


def vkey(v: dict) -> tuple:
    return (v['n1'], v['n2'], bool(v['s3']))


def pkey(p: dict) -> tuple:
    return (p['rv'], p['lg'], p['wl'])


# --------------------------------------------------------------------------- handles: real provider per variant
def proj_state(st) -> dict:
    d = st.DescriptorHandle if st.DescriptorHandle is not None else 'None'
    if getattr(st, 'is_context_state', False) or getattr(st, 'is_multi_state', False):
        return {'k': 'C', 'h': st.Handle if st.Handle is not None else 'None', 'd': d}
    return {'k': 'S', 'h': d, 'd': d}


class HandleLab:
    """One abstract MDIB variant built on a real provider, queried through the real consumer clients."""

    def __init__(self, v: dict, abstract_m: dict):
        from verif.mdibharness import load_mdib, make_descriptor
        from verif.pair import Pair
        self.v = v
        self.calls = 0
        try:
            mdib = load_mdib()
            d = make_descriptor(mdib, 'dB', S3_PARENT)   # MAP['s3'] == 'dynB'
            if d.Handle != MAP['s3']:
                raise MachineryError(f'fixture handle of s3 is {d.Handle}')
            with mdib.descriptor_transaction() as mgr:
                st = mdib.data_model.mk_state_container(d) if 's3' in abstract_m['single'] else None
                mgr.add_descriptor(d, state_container=st)
            self.pair = Pair(mdib=mdib, consumer_init_mdib=False)
        except MachineryError:
            raise
        except Exception as ex:  # noqa: BLE001
            raise MachineryError(f'cannot build provider for variant {v}: {ex!r}') from ex
        try:
            first = set()
            for c in sorted(abstract_m['ctx'], key=lambda c: c['h']):
                with self.pair.mdib.context_state_transaction() as mgr:   # one real transaction per context state
                    mgr.mk_context_state(MAP[c['d']], MAP[c['h']], set_associated=c['d'] not in first)
                first.add(c['d'])
            self.get = self.pair.consumer.get_service_client
            self.ctx = self.pair.consumer.context_service_client
            if self.get is None or self.ctx is None:
                raise MachineryError('consumer has no Get / Context service client')
        except MachineryError:
            self.close()
            raise
        except Exception as ex:  # noqa: BLE001
            self.close()
            raise MachineryError(f'cannot create context states for variant {v}: {ex!r}') from ex

    def close(self):
        self.pair.stop()

    def first_record(self) -> dict:
        """The MDIB as the provider tables hold it (concrete handles)."""
        mdib = self.pair.mdib
        pm = mdib.data_model.pm_names
        by_handle = {d.Handle: d for d in mdib.descriptions.objects}

        def mds_of(handle):
            seen = 0
            while handle is not None and seen < 50:
                d = by_handle.get(handle)
                if d is None:
                    return 'None'
                if d.NODETYPE == pm.MdsDescriptor:
                    return d.Handle
                handle = d.parent_handle
                seen += 1
            return 'None'

        m = {'desc': sorted(by_handle),
             'mds': sorted(h for h, d in by_handle.items() if d.NODETYPE == pm.MdsDescriptor),
             'single': sorted(s.DescriptorHandle for s in mdib.states.objects),
             'ctx': sorted(({'h': s.Handle, 'd': s.DescriptorHandle, 'm': mds_of(s.DescriptorHandle)}
                            for s in mdib.context_states.objects), key=lambda c: c['h'])}
        return {'kind': 'mdib', 'v': self.v, 'map': MAP, 'M': m}

    def _ask(self, fn, handles, states_of):
        self.calls += 1
        try:
            result = fn(handles)
            return {'exc': '', 'resp': [proj_state(s) for s in states_of(result.result)]}
        except Exception as ex:  # noqa: BLE001
            return {'exc': type(ex).__name__, 'resp': [], 'info': exc_info(ex)}

    def query(self, req_abs: list[str], empty_as_none: bool) -> dict:
        req = [MAP[h] for h in req_abs]
        arg = None if (not req and empty_as_none) else list(req)
        return {'kind': 'q', 'req': req, 'abs': list(req_abs),
                'md': self._ask(self.get.get_md_state, arg, lambda r: r.MdState.State),
                'ctx': self._ask(self.ctx.get_context_states, arg, lambda r: r.ContextState)}


# --------------------------------------------------------------------------- texts: one real provider, many stores
def body_of(t: dict) -> str:
    """Unique content with exactly t['lines'] lines (newline separated, no sentence punctuation)."""
    n = t['lines']
    rows = [f"{t['ref']} v{t['ver']} {t['lang']} {t['width']} line {i + 1} of {n}" for i in range(n)]
    if n >= 3:
        rows[1] = ''       # a line without content is a line
    return '\n'.join(rows)


class TextLab:
    def __init__(self):
        from verif.pair import Pair
        try:
            self.pair = Pair(consumer_init_mdib=False)
            from sdc11073.provider.porttypes.localizationservice import LocalizationStorage
            from sdc11073.xml_types.pm_types import LocalizedText, LocalizedTextWidth
            self.LocalizationStorage = LocalizationStorage
            self.LocalizedText = LocalizedText
            self.Width = LocalizedTextWidth
            self.svc = self.pair.provider.hosted_services.localization_service
            self.client = self.pair.consumer.localization_service_client
            if self.svc is None or self.client is None:
                raise MachineryError('no localization service / client')
        except MachineryError:
            raise
        except Exception as ex:  # noqa: BLE001
            raise MachineryError(f'cannot build provider with localization service: {ex!r}') from ex
        self.calls = 0

    def close(self):
        self.pair.stop()

    def install(self, texts: list[dict], rng: random.Random):
        """A fresh real LocalizationStorage filled through its public add()."""
        order = list(texts)
        rng.shuffle(order)
        try:
            storage = self.LocalizationStorage()
            self.svc.localization_storage = storage
            if self.pair.provider.localization_storage is not storage:
                raise MachineryError('provider.localization_storage is not the storage of the localization service')
            objs = [self.LocalizedText(body_of(t), lang=t['lang'], ref=t['ref'], version=t['ver'],
                                       text_width=self.Width(t['width'])) for t in order]
            if objs:
                storage.add(*objs)
        except MachineryError:
            raise
        except Exception as ex:  # noqa: BLE001
            raise MachineryError(f'cannot fill the localization storage: {ex!r}') from ex

    def proj_text(self, t, check_body=True) -> dict:
        rec = {'ref': t.Ref if t.Ref is not None else 'None',
               'ver': t.Version if t.Version is not None else -1,
               'lang': t.Lang if t.Lang is not None else 'None',
               'width': getattr(t.TextWidth, 'value', t.TextWidth) if t.TextWidth is not None else 'None',
               'lines': (t.text or '').count('\n') + 1}
        if check_body:
            rec['same'] = (t.text == body_of(rec)) if rec['ver'] != -1 else False
        return rec

    def first_record(self, p: dict) -> dict:
        """What the real storage holds now + the answer of GetSupportedLanguages."""
        stored = []
        for lst in dict(self.pair.provider.localization_storage._localized_texts).values():  # noqa: SLF001
            stored.extend(self.proj_text(t, check_body=False) for t in lst)
        stored.sort(key=lambda t: json.dumps(t, sort_keys=True))
        self.calls += 1
        try:
            res = self.client.get_supported_languages()
            langs = {'exc': '', 'resp': [str(x) for x in res.result.Lang]}
        except Exception as ex:  # noqa: BLE001
            langs = {'exc': type(ex).__name__, 'resp': [], 'info': exc_info(ex)}
        return {'kind': 'store', 'p': p, 'texts': stored, 'langs': langs}

    def query(self, f: dict) -> dict:
        kw = {'refs': list(f['ref']) or None, 'version': f['ver'][0] if f['ver'] else None,
              'langs': list(f['lang']) or None,
              'text_widths': [self.Width(w) for w in f['width']] or None,
              'number_of_lines': [int(n) for n in f['lines']] or None}
        rec = {'kind': 'text', 'f': f, 'sendable': True}
        self.calls += 1
        try:
            res = self.client.get_localized_texts(**kw)
        except Exception as ex:  # noqa: BLE001
            posted = any(fr.name == 'post_message' for fr in traceback.extract_tb(ex.__traceback__))
            if not posted and kw['number_of_lines']:
                # the documented form (list[int]) did not reach the wire: recorded (clause text_request_sendable);
                # the filter semantics is then judged with the lexical form the message model carries
                rec['sendable'] = False
                rec['send_info'] = exc_info(ex)
                kw['number_of_lines'] = [str(n) for n in kw['number_of_lines']]
                self.calls += 1
                try:
                    res = self.client.get_localized_texts(**kw)
                except Exception as ex2:  # noqa: BLE001
                    rec['a'] = {'exc': type(ex2).__name__, 'resp': [], 'info': exc_info(ex2)}
                    return rec
            else:
                rec['a'] = {'exc': type(ex).__name__, 'resp': [], 'info': exc_info(ex)}
                return rec
        rec['a'] = {'exc': '', 'resp': [self.proj_text(t) for t in res.result.Text]}
        return rec


# --------------------------------------------------------------------------- code -> spec: TLC judges
def strip(rec: dict) -> dict:
    out = {k: v for k, v in rec.items() if k not in ('abs', 'send_info')}
    for k in ('md', 'ctx', 'a', 'langs'):
        if k in out:
            out[k] = {kk: vv for kk, vv in out[k].items() if kk != 'info'}
    return out


def dup_cause(rec: dict, which: str) -> str:
    """Shape of the request behind a repeated state (description of the finding only)."""
    resp = rec[which]['resp']
    dups = [s for i, s in enumerate(resp) if s in resp[:i]]
    req = rec['req']
    for s in dups:
        if any(req.count(h) > 1 for h in {s['h'], s['d']}):
            return 'repeated_handle'
    return 'overlapping_handles'


def judge(run, traces: list[list[dict]], replays: list, chunk: int):
    """Let TLC judge the traces; turn rejected clauses into violations (simplest request first)."""
    n0 = len(run.tlc)
    rejects = tracecheck.validate(run, 'QueryTrace', 'QueryTrace.cfg', [[strip(r) for r in t] for t in traces],
                                  chunk=chunk, timeout=2400)
    for res in run.tlc[n0:]:
        for v in printed_values(res.stdout, 'NOTE'):
            run.count(f'unconstrained_answer_is_{v[3]}')
    bad = [r for r in rejects if r[2].startswith('machinery:')]
    if bad:
        ti, li, clause = bad[0]
        raise MachineryError(f'{clause} rejected for trace {ti} record {li}: {json.dumps(traces[ti][li])[:600]}')

    def simplicity(r):
        rec = traces[r[0]][r[1]]
        if rec['kind'] == 'q':
            return (0, len(rec['req']), len(traces[r[0]][0]['M']['ctx']), r[0], r[1])
        if rec['kind'] == 'text':
            return (1, sum(len(rec['f'][k]) for k in KINDS), len(traces[r[0]][0]['texts']), r[0], r[1])
        return (1, 0, len(rec.get('texts', [])), r[0], r[1])

    for ti, li, clause in sorted(rejects, key=simplicity):
        rec, first = traces[ti][li], traces[ti][0]
        run.count('rejected_clauses')
        if rec['kind'] == 'q':
            which, _, name = clause.partition('_')
            service = {'md': 'GetMdState', 'ctx': 'GetContextStates'}[which]
            descr = {'check': 'handles', 'service': service, 'clause': name}
            info = rec[which].get('info', {})
            if name == 'at_most_once':
                descr['cause'] = dup_cause(rec, which)
            if info:
                descr.update({'exc': info['exc'], 'where': info['where']})
            got = [s['h'] for s in rec[which]['resp']]
            what = (f'{service}({rec["req"]}) on MDIB variant {first["v"]} returned states {got}'
                    f'{" (" + info["exc"] + ": " + info["msg"] + ")" if info else ""}: clause {clause} fails')
        elif rec['kind'] == 'text':
            name = clause[len('text_'):]
            descr = {'check': 'texts', 'service': 'GetLocalizedText', 'clause': name}
            info = rec.get('send_info', {}) if name == 'request_sendable' else rec['a'].get('info', {})
            if info:
                descr.update({'exc': info['exc'], 'where': info['where']})
            if name == 'request_sendable':
                descr['arg'] = 'number_of_lines'
            flt = {k: v for k, v in rec['f'].items() if v}
            what = (f'GetLocalizedText({flt}) on store {first["p"]} ({len(first["texts"])} texts) returned '
                    f'{[(t["ref"], t["ver"], t["lang"], t["width"], t["lines"]) for t in rec["a"]["resp"]][:8]}'
                    f'{" (" + info["exc"] + ": " + info["msg"] + ")" if info else ""}: clause {clause} fails')
        else:
            name = clause[len('langs_'):]
            descr = {'check': 'texts', 'service': 'GetSupportedLanguages', 'clause': name}
            info = rec['langs'].get('info', {})
            if info:
                descr.update({'exc': info['exc'], 'where': info['where']})
            what = (f'GetSupportedLanguages on store {first["p"]} returned {rec["langs"]["resp"]}: '
                    f'clause {clause} fails')
        run.violation(descr, what, {**replays[ti], 'record_index': li, 'record': rec})


# --------------------------------------------------------------------------- drivers
def drive_handles(run, cases: list[dict], variants: list[dict]):
    by_v: dict[tuple, list] = {}
    for c in cases:
        by_v.setdefault(vkey(c['v']), []).append(c['req'])
    abstract = {vkey(x['v']): x for x in variants}
    if set(by_v) != set(abstract):
        raise MachineryError('CASE variants and VARIANTS line disagree')
    traces, replays, calls = [], [], 0
    for i, key in enumerate(sorted(by_v)):
        x = abstract[key]
        lab = HandleLab(x['v'], x['M'])
        try:
            trace = [lab.first_record()]
            for req in sorted(by_v[key], key=lambda r: (len(r), r)):
                trace.append(lab.query(req, empty_as_none=(i % 2 == 0)))
                run.count('md_answers_nonempty', int(bool(trace[-1]['md']['resp'])))
                run.count('ctx_answers_nonempty', int(bool(trace[-1]['ctx']['resp'])))
                if req:
                    run.distinct_traces.add(('h', key, tuple(req)))
        finally:
            lab.close()
        calls += lab.calls
        traces.append(trace)
        replays.append({'kind': 'h', 'v': x['v'], 'M': x['M']})
    return traces, replays, calls


def drive_texts(run, cases: list[dict]):
    stores, filters = {}, {}
    for c in cases:
        if c['kind'] == 's':
            stores[pkey(c['p'])] = c
        else:
            filters.setdefault(pkey(c['p']), []).append(c['f'])
    if set(stores) != set(filters):
        raise MachineryError('every store must come with its filters')
    rng = random.Random(run.seed)
    lab = TextLab()
    traces, replays = [], []
    try:
        for key in sorted(stores):
            c = stores[key]
            lab.install(c['texts'], rng)
            trace = [lab.first_record(c['p'])]
            for f in sorted(filters[key], key=lambda f: json.dumps(f, sort_keys=True)):
                trace.append(lab.query(f))
                run.count('text_answers_nonempty', int(bool(trace[-1]['a']['resp'])))
                if c['texts']:
                    run.distinct_traces.add(('t', key, json.dumps(f, sort_keys=True)))
            traces.append(trace)
            replays.append({'kind': 't', 'p': c['p'], 'texts': c['texts']})
    finally:
        lab.close()
    return traces, replays, lab.calls


def do_replay(run, path: str):
    with open(path) as f:
        rp = json.load(f)['replay']
    rec = rp['record']
    if rp['kind'] == 'h':
        lab = HandleLab(rp['v'], rp['M'])
        try:
            first = lab.first_record()
            trace = [first] if rec['kind'] != 'q' else [first, lab.query(rec['abs'], empty_as_none=True)]
        finally:
            lab.close()
    else:
        lab = TextLab()
        try:
            lab.install(rp['texts'], random.Random(run.seed))
            first = lab.first_record(rp['p'])
            trace = [first] if rec['kind'] != 'text' else [first, lab.query(rec['f'])]
        finally:
            lab.close()
    run.sample({'replayed': rp['kind'], 'record': strip(trace[-1])})
    judge(run, [trace], [{k: v for k, v in rp.items() if k not in ('record', 'record_index')}], 10)
    run.evaluations = lab.calls


# --------------------------------------------------------------------------- entry point
def check(run, replay_path=None):
    if replay_path:
        do_replay(run, replay_path)
        return

    # ---- spec -> code: one TLC run enumerates both domains and checks the laws of the reference
    cases, variants = cases_of(run, run.pick('Query_quick.cfg', 'Query.cfg'))
    hcases = [c for c in cases if c['kind'] == 'h']
    tcases = [c for c in cases if c['kind'] in ('s', 't')]
    n_req = run.pick(1 + 8 + 64 + 512, 1 + 11 + 121 + 1331)
    n_var = run.pick(4, 18)
    if len(hcases) != n_req * n_var or len(variants) != n_var:
        raise MachineryError(f'handle domain: {len(hcases)} cases / {len(variants)} variants, expected '
                             f'{n_req} x {n_var}')
    n_store = run.pick(9, 5 * 7 + 2 * 7 + 4)
    n_filter = run.pick(4 * 3 * 4 * 4 * 3, 5 * 4 * 4 * 6 * 4)
    if len(tcases) != n_store * (n_filter + 1) or len(hcases) + len(tcases) != len(cases):
        raise MachineryError(f'text domain: {len(tcases)} cases, expected {n_store} x ({n_filter} + 1)')

    # ---- part 1: handle selection on real providers
    traces, replays, calls = drive_handles(run, hcases, variants)
    run.note('handle_cases', {'variants': n_var, 'requests_per_variant': n_req, 'service_calls': calls})
    t = traces[-1]
    i = next(i for i, r in enumerate(t) if r['kind'] == 'q' and r['abs'] == ['cd1', 'c11'])
    run.sample({'variant': t[0]['v'], 'request': t[i]['req'], 'GetMdState': [s['h'] for s in t[i]['md']['resp']],
                'GetContextStates': [s['h'] for s in t[i]['ctx']['resp']]})

    # ---- part 2: localized texts on a real provider
    ttraces, treplays, tcalls = drive_texts(run, tcases)
    run.note('text_cases', {'stores': n_store, 'filters_per_store': n_filter, 'service_calls': tcalls})
    t = next(t for t in ttraces if t[0]['p']['lg'] == 'ragref')
    i = next(i for i, r in enumerate(t) if r['kind'] == 'text' and r['f']['width'] == ['m'] and r['f']['lang'] == []
             and r['f']['ref'] == [] and r['f']['ver'] == [0] and r['f']['lines'] == [])
    run.sample({'store': t[0]['texts'], 'languages': t[0]['langs']['resp'], 'filter': t[i]['f'],
                'GetLocalizedText': t[i]['a']['resp']})

    # ---- code -> spec: TLC judges every record (quick: one TLC run for everything)
    run.count('rejected_clauses', 0)
    judge(run, traces + ttraces, replays + treplays, run.pick(100, 8))
    run.evaluations = calls + tcalls
    run.note('exhaustive', True)
    run.assumptions += [
        'provider option contextstates_in_getmdib stays at its default (True): GetMdState answers context states',
        'one MDS (fixtures/one_mds.xml): "all context states of that MDS" = all context states; the MDS of a context '
        'state is still derived from the real descriptor tree',
        'texts carry all of Ref, Version, Lang, TextWidth; a line is a newline-separated segment without sentence '
        'punctuation (where the BICEPS definition of a line and the implementation agree)',
        'a constrained GetLocalizedText answer is only demanded to be a subset of the matching stored texts; '
        '"the latest version" is accepted per store or per referenced text',
        'where the documented argument form (number_of_lines: list[int]) does not reach the wire, the filter '
        'semantics is judged with the lexical form (list[str]); the failure itself is the clause '
        'text_request_sendable',
    ]
