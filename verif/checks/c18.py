"""C18 - scalar XML value conversions are exact over the wire value space.

spec:    specs/Scalars.tla defines the lexical <-> value mappings of the BICEPS scalar types over an abstract domain
         (naturals as digit sequences, decimals as sign/coefficient/exponent, durations as (sec, ns), date/time
         records, lexical probes as character sequences) and the laws of the reference (INVARIANT Law).  TLC visits
         every case of the sub-domains (Part = ts | dec | dur | dt | lex; one run for all in the quick tier, one run
         per part in parallel in the thorough tier) and prints it.
binding: spec -> code: every printed case is concretised into calls of the real converters
         (sdc11073.xml_types.dataconverters, isoduration) and of the attribute / node-text properties of
         xml_structure.py that wrap them; the raw results (lexical results as character lists, python values as exact
         digit sequences / (sec, ns) pairs) are recorded.
         code -> spec: specs/ScalarsTrace.tla (TLC) judges every record with the operators of Scalars.tla: it parses
         the lexical results itself and names the failing clause.
         Hand-made canary records (good and bad twins per clause) are judged in the same TLC runs; a canary that
         is not judged as intended is a machinery failure (guards against a vacuous judge).
measured in python (exact rational arithmetic, no tolerance): the distance |to_py(to_xml(x)) - x| for python floats
         (floor / ceil to whole nanoseconds); IEEE-754 values cannot be represented in TLC.  TLC compares the measured
         distance with the bound of the statement.
"""
from __future__ import annotations

import datetime
import json
import os
import random
import threading
from decimal import Decimal
from fractions import Fraction

from verif import tracecheck
from verif.tlc import SPEC_DIR, MachineryError, json_lines, run_tlc

PARTS = ('ts', 'dec', 'dur', 'dt', 'lex')
CAP = 2_000_000_000
BATCH = 250  # records per "trace" given to TLC
JUDGE_WORKERS = 4  # TLC processes judging in parallel


# ------------------------------------------------------------------------------------------ abstraction helpers
def _ds(n: int) -> list[int]:
    return [int(ch) for ch in str(n)]


def _num(ds) -> int:
    return int(''.join(str(d) for d in ds))


def _chars(s) -> list[str]:
    return list(s) if isinstance(s, str) else ['<', type(s).__name__, '>']


def _dec_abs(y) -> dict:
    if not isinstance(y, Decimal):
        return {'special': type(y).__name__, 'neg': False, 'co': [0], 'ex': 0}
    if not y.is_finite():
        return {'special': 'nan' if y.is_nan() else 'inf', 'neg': False, 'co': [0], 'ex': 0}
    sign, digits, exp = y.as_tuple()
    if abs(exp) > 1_000_000:
        return {'special': 'huge', 'neg': False, 'co': [0], 'ex': 0}
    return {'special': 'none', 'neg': bool(sign), 'co': list(digits) or [0], 'ex': int(exp)}


def _sec_ns(p) -> dict:
    """Exact floor decomposition of a python number of seconds."""
    f = Fraction(p)
    if f < 0:
        return {'sec': -1, 'ns': 0}
    sec = f.numerator // f.denominator
    ns = ((f - sec) * 10 ** 9).__floor__()
    return {'sec': min(sec, 2_147_483_647), 'ns': int(ns)}


def _dt_abs(obj) -> dict:
    if obj.end_of_day:
        tm = 'eod'
    elif obj.hour is not None:
        tm = 'hms'
    else:
        tm = 'none'
    sod = ns = 0
    if tm == 'hms':
        f = Fraction(obj.second)
        whole = f.numerator // f.denominator
        sod = obj.hour * 3600 + obj.minute * 60 + whole
        ns = int(((f - whole) * 10 ** 9).__floor__())
    off = 0
    tz = 'none'
    if obj.tz_info is not None and obj.tz_info.utcoffset(None) is not None:
        tz = 'off'
        off = int(obj.tz_info.utcoffset(None).total_seconds()) // 60
    return {'yneg': obj.year < 0, 'y': _ds(abs(obj.year)), 'mo': obj.month or 0, 'dy': obj.day or 0, 'tm': tm,
            'sod': sod, 'ns': ns, 'tz': tz, 'off': off}


# ------------------------------------------------------------------------------------------ the real code
class Real:
    """Access to the real converters and to properties of xml_structure.py declared on a probe type."""

    def __init__(self):
        from lxml import etree
        from sdc11073.xml_types import dataconverters as dc
        from sdc11073.xml_types import isoduration, pm_types
        from sdc11073.xml_types import xml_structure as xs
        from sdc11073.xml_types.basetypes import XMLTypeBase

        self.etree = etree
        self.dc = dc
        self.iso = isoduration
        self.enums = {'enum:MetricCategory': pm_types.MetricCategory,
                      'enum:AlertSignalManifestation': pm_types.AlertSignalManifestation}
        qn = etree.QName

        class Probe(XMLTypeBase):
            Ts = xs.TimestampAttributeProperty('Ts')
            Dec = xs.DecimalAttributeProperty('Dec')
            Qi = xs.QualityIndicatorAttributeProperty('Qi')
            DecList = xs.DecimalListAttributeProperty('DecList')
            Dur = xs.DurationAttributeProperty('Dur')
            Int = xs.IntegerAttributeProperty('Int')
            UInt = xs.UnsignedIntAttributeProperty('UInt')
            Ver = xs.VersionCounterAttributeProperty('Ver')
            RefVer = xs.ReferencedVersionAttributeProperty('RefVer')
            Bool = xs.BooleanAttributeProperty('Bool')
            Cat = xs.EnumAttributeProperty('Cat', pm_types.MetricCategory)
            Man = xs.EnumAttributeProperty('Man', pm_types.AlertSignalManifestation)
            NInt = xs.NodeIntProperty(qn('NInt'), is_optional=True)
            NUInt = xs.NodeTextProperty(qn('NUInt'), dc.UnsignedIntConverter, is_optional=True)
            NDec = xs.NodeDecimalProperty(qn('NDec'), is_optional=True)
            NDur = xs.NodeDurationProperty(qn('NDur'), is_optional=True)
            NCat = xs.NodeEnumTextProperty(qn('NCat'), pm_types.MetricCategory, is_optional=True)
            NMan = xs.NodeEnumTextProperty(qn('NMan'), pm_types.AlertSignalManifestation, is_optional=True)
            Dob = xs.DateOfBirthProperty(qn('Dob'), is_optional=True)
            _props = ('Ts', 'Dec', 'Qi', 'DecList', 'Dur', 'Int', 'UInt', 'Ver', 'RefVer', 'Bool', 'Cat', 'Man',
                      'NInt', 'NUInt', 'NDec', 'NDur', 'NCat', 'NMan', 'Dob')

        self.Probe = Probe
        self.attr_names = {'Ts', 'Dec', 'Qi', 'DecList', 'Dur', 'Int', 'UInt', 'Ver', 'RefVer', 'Bool', 'Cat', 'Man'}
        # the enum literal sets of the specification must be those of the real enums
        want = {'enum:MetricCategory': {'Unspec', 'Msrmt', 'Clc', 'Set', 'Preset', 'Rcmm'},
                'enum:AlertSignalManifestation': {'Aud', 'Vis', 'Tan', 'Oth'}}
        for k, cls in self.enums.items():
            if {m.value for m in cls} != want[k]:
                raise MachineryError(f'enum literals of {cls.__name__} differ from Scalars.tla EnumLits')

    def converter_of(self, tg: str):
        """The converter object a target is configured with (None for the date/time functions of isoduration)."""
        kind, name = tg.split(':', 1)
        if kind == 'func':
            return None
        if kind == 'conv':
            if name.startswith('Enum'):
                return self.dc.EnumConverter(self.enums['enum:' + name[5:-1]])
            return getattr(self.dc, name)
        conv = getattr(self.Probe, name)._converter  # noqa: SLF001
        conv = getattr(conv, '_element_converter', conv)
        return None if isinstance(conv, self.dc.ClassCheckConverter) else conv

    def fault_of(self, tg: str, direction: str) -> tuple[str, str]:
        """(qualified name of the function that is executed, name of the configured converter class)."""
        conv = self.converter_of(tg)
        if conv is None:
            return ('isoduration.parse_date_time' if direction == 'to_py' else 'isoduration.XsdDateInformation.__str__',
                    'isoduration')
        fn = getattr(conv, direction)
        cls_name = conv.__name__ if isinstance(conv, type) else type(conv).__name__
        return getattr(fn, '__qualname__', cls_name + '.' + direction), cls_name

    def to_py(self, tg: str, lexical: str):
        """XML -> Python through target tg ('conv:<Converter>', 'prop:<Probe member>', 'func:isoduration')."""
        kind, name = tg.split(':', 1)
        if kind == 'conv':
            if name.startswith('Enum'):
                return self.dc.EnumConverter(self.enums['enum:' + name[5:-1]]).to_py(lexical)
            return getattr(self.dc, name).to_py(lexical)
        if kind == 'func':
            return self.iso.parse_date_time(lexical)
        prop = getattr(self.Probe, name)
        node = self.etree.Element('probe')
        if name in self.attr_names:
            node.set(name, lexical)
        else:
            self.etree.SubElement(node, name).text = lexical
        obj = self.Probe()
        prop.update_from_node(obj, node)
        value = getattr(obj, name)
        if name == 'DecList':
            if len(value) != 1:
                raise ValueError(f'list of {len(value)} values for one lexical value')
            return value[0]
        return value

    def to_xml(self, tg: str, py_value) -> str:
        kind, name = tg.split(':', 1)
        if kind == 'conv':
            return self.converter_of(tg).to_xml(py_value)
        if kind == 'func':
            return str(py_value)
        prop = getattr(self.Probe, name)
        obj = self.Probe()
        setattr(obj, name, [py_value] if name == 'DecList' else py_value)
        node = self.etree.Element('probe')
        prop.update_xml_value(obj, node)
        if name in self.attr_names:
            return node.get(name)
        sub = node.find(name)
        return None if sub is None else sub.text


TARGETS = {
    'ts': ['conv:TimestampConverter', 'prop:Ts'],
    'dec': ['conv:DecimalConverter', 'prop:Dec', 'prop:NDec', 'prop:DecList', 'prop:Qi'],
    'dur': ['conv:DurationConverter', 'prop:Dur', 'prop:NDur'],
    'dt': ['func:isoduration', 'prop:Dob'],
}
LEX_TARGETS = {
    'boolean': ['conv:BooleanConverter', 'prop:Bool'],
    'integer': ['conv:IntegerConverter', 'prop:Int', 'prop:NInt'],
    'unsignedInt': ['conv:UnsignedIntConverter', 'prop:UInt', 'prop:NUInt'],
    'unsignedLong': ['conv:UnsignedLongConverter', 'prop:Ver', 'prop:RefVer'],
    'timestamp': ['conv:TimestampConverter', 'prop:Ts'],
    'decimal': ['conv:DecimalConverter', 'prop:Dec', 'prop:NDec', 'prop:DecList'],
    'duration': ['conv:DurationConverter', 'prop:Dur', 'prop:NDur'],
    'enum:MetricCategory': ['conv:Enum(MetricCategory)', 'prop:Cat', 'prop:NCat'],
    'enum:AlertSignalManifestation': ['conv:Enum(AlertSignalManifestation)', 'prop:Man', 'prop:NMan'],
}


def _stage(a: dict, n: int, fn, *args):
    """Run one stage; on an exception mark the record and return (False, None)."""
    try:
        return True, fn(*args)
    except Exception as ex:  # noqa: BLE001
        a['st'] = f'exc{n}:{type(ex).__name__}'
        return False, None


def lex_str(chars) -> str:
    """Character sequence of the specification -> text ("U+xxxx" tokens are characters TLA+ strings cannot hold)."""
    return ''.join(chr(int(ch[2:], 16)) if len(ch) > 2 and ch.startswith('U+') else ch for ch in chars)


# ------------------------------------------------------------------------------------------ concretisation
def drive(real: Real, item: dict, tg: str) -> dict:
    """One abstract case on one target of the real code -> actual result record."""
    c = item['c']
    k = c['k']
    lexical = lex_str(item['lex'])
    if k == 'ts1':
        a = {'st': 'ok', 'xml': []}
        ok, p = _stage(a, 1, real.to_py, tg, lexical)
        if ok:
            ok, x = _stage(a, 2, real.to_xml, tg, p)
            if ok:
                a['xml'] = _chars(x)
        return a
    if k == 'ts2':
        a = {'st': 'ok', 'xml': [], 'err': [0]}
        us = _num(c['ms']) * 1000 + c['sub']
        if c['ty'] == 'float':
            x = us / 10 ** 6  # correctly rounded
        elif c['ty'] == 'Decimal':
            x = Decimal(us).scaleb(-6)
        else:
            x = us // 10 ** 6
        ok, xml = _stage(a, 1, real.to_xml, tg, x)
        if ok:
            a['xml'] = _chars(xml)
            ok, y = _stage(a, 2, real.to_py, tg, xml)
            if ok:
                a['err'] = _ds((abs(Fraction(y) - Fraction(x)) * 10 ** 9).__floor__())
        return a
    if k == 'dpy':
        a = {'st': 'ok', 'xml': [], 'py': _dec_abs(None)}
        d = Decimal((1 if c['neg'] else 0, tuple(c['co']) + (0,) * c.get('pad', 0), c['ex'] - c.get('pad', 0)))
        ok, xml = _stage(a, 1, real.to_xml, tg, d)
        if ok:
            a['xml'] = _chars(xml)
            ok, y = _stage(a, 2, real.to_py, tg, xml)
            if ok:
                a['py'] = _dec_abs(y)
        return a
    if k == 'dxml':
        a = {'st': 'ok', 'xml': [], 'py': _dec_abs(None)}
        ok, y = _stage(a, 1, real.to_py, tg, lexical)
        if ok:
            a['py'] = _dec_abs(y)
            ok, xml = _stage(a, 2, real.to_xml, tg, y)
            if ok:
                a['xml'] = _chars(xml)
        return a
    if k == 'durxml':
        a = {'st': 'ok', 'xml': [], 'py': {'sec': 0, 'ns': 0}}
        ok, p = _stage(a, 1, real.to_py, tg, lexical)
        if ok:
            a['py'] = _sec_ns(p)
            ok, xml = _stage(a, 2, real.to_xml, tg, p)
            if ok:
                a['xml'] = _chars(xml)
        return a
    if k == 'durpy':
        a = {'st': 'ok', 'xml': [], 'err': 0}
        ns = c['sec'] * 10 ** 9 + c['us'] * 1000 + c['sub']
        if c['ty'] == 'float':
            x = ns / 10 ** 9
        elif c['ty'] == 'Decimal':
            x = Decimal(ns).scaleb(-9)
        else:
            x = c['sec']
        ok, xml = _stage(a, 1, real.to_xml, tg, x)
        if ok:
            a['xml'] = _chars(xml)
            ok, y = _stage(a, 2, real.to_py, tg, xml)
            if ok:
                a['err'] = int(min((abs(Fraction(y) - Fraction(x)) * 10 ** 9).__ceil__(), CAP))
        return a
    if k == 'dtxml':
        a = {'st': 'ok', 'xml': [], 'py': {}}
        ok, obj = _stage(a, 1, real.to_py, tg, lexical)
        if ok:
            ok, py = _stage(a, 1, _dt_abs, obj)
        if ok:
            a['py'] = py
            ok, xml = _stage(a, 2, real.to_xml, tg, obj)
            if ok:
                a['xml'] = _chars(xml)
        return a
    if k == 'dtpy':
        a = {'st': 'ok', 'xml': [], 'py': {}}
        ok, obj = _stage(a, 0, _mk_date, real, c)
        if not ok:
            raise MachineryError(f'cannot build XsdDateInformation for case {c}: {a["st"]}')
        ok, xml = _stage(a, 1, real.to_xml, tg, obj)
        if ok:
            a['xml'] = _chars(xml)
            ok, obj2 = _stage(a, 2, real.to_py, tg, xml)
            if ok:
                ok, py = _stage(a, 2, _dt_abs, obj2)
                if ok:
                    a['py'] = py
        return a
    if k == 'lex':
        try:
            v = real.to_py(tg, lexical)
        except Exception as ex:  # noqa: BLE001
            return {'st': 'raise', 'exc': type(ex).__name__}
        try:
            a = {'st': 'value', 'v': _lex_abs(c['ty'], v), 'exc': repr(v)[:60]}
        except Exception:  # noqa: BLE001
            a = {'st': 'value', 'v': _lex_abs_fallback(c['ty']), 'exc': repr(v)[:60]}
        try:  # and back (judged for literals the specification accepts)
            a['xml'] = _chars(real.to_xml(tg, v))
            a['xst'] = 'ok'
        except Exception as ex:  # noqa: BLE001
            a['xml'] = []
            a['xst'] = f'exc:{type(ex).__name__}'
        return a
    raise MachineryError(f'unknown case kind {k}')


def _mk_date(real: Real, c: dict):
    year = _num(c['y']) * (-1 if c['yneg'] else 1)
    tz = None
    if c['tz'] == 'Z':
        tz = datetime.timezone.utc
    elif c['tz'] in '+-':
        minutes = c['tzh'] * 60 + c['tzm']
        tz = datetime.timezone(datetime.timedelta(minutes=-minutes if c['tz'] == '-' else minutes))
    kw = {}
    if c['tm'] == 'hms':
        frac = Fraction(_num(c['fr']), 10 ** len(c['fr'])) if c['fr'] else Fraction(0)
        second = float(c['ss'] + frac)
        if not c['fr'] and c['k'] == 'dtpy' and (c['hh'] + c['mi']) % 2 == 0:
            second = int(c['ss'])   # whole seconds given as int (the natural python value; int is a float per PEP 484)
        kw = {'hour': c['hh'], 'minute': c['mi'], 'second': second}
    elif c['tm'] in ('eod', 'eodf'):
        kw = {'end_of_day': True}
    return real.iso.XsdDateInformation(year=year, month=c['mo'] or None, day=c['dy'] or None, tz_info=tz, **kw)


def _lex_abs_fallback(ty: str) -> dict:
    if ty == 'boolean':
        return {'b': 'nonbool'}
    if ty == 'decimal':
        return _dec_abs(None)
    if ty == 'duration':
        return {'sec': -1, 'ns': 0}
    if ty.startswith('enum:'):
        return {'lit': ['?']}
    return {'neg': False, 'm': [-1]}


def _lex_abs(ty: str, v) -> dict:
    """Abstract value of what to_py returned, in the shape of Scalars!LexValue."""
    if ty == 'boolean':
        return {'b': v if isinstance(v, bool) else 'nonbool'}
    if ty == 'decimal':
        return _dec_abs(v)
    if ty == 'duration':
        return _sec_ns(v)
    if ty.startswith('enum:'):
        return {'lit': list(v.value)}
    if ty == 'timestamp':
        ms = Fraction(v) * 1000
        n = round(ms)
        if abs(ms - n) > Fraction(1, 1000):
            return {'neg': False, 'm': [-1]}
        return {'neg': n < 0, 'm': _ds(abs(n))}
    if isinstance(v, bool) or not isinstance(v, int):
        return {'neg': False, 'm': [-1]}
    return {'neg': v < 0, 'm': _ds(abs(v))}


# ------------------------------------------------------------------------------------------ TLC runs
def _write_cfg(name: str, part: str, sizes: dict) -> str:
    """cfg of one enumeration run; the size constants of the other parts are 0 (TLC evaluates all constant sets)."""
    def size(key, owner):
        return sizes[key] if part in (owner, 'all') else 0

    path = os.path.join(SPEC_DIR, f'_gen_c18_{name}.cfg')
    with open(path, 'w') as f:
        f.write('SPECIFICATION Spec\nCONSTANTS\n'
                f'  Part = "{part}"\n  Big = {"TRUE" if sizes["big"] else "FALSE"}\n'
                f'  TsDense = {size("ts_dense", "ts")}\n  TsWin = {size("ts_win", "ts")}\n'
                f'  Ts2Dense = {size("ts2_dense", "ts")}\n  DecCoMax = {size("dec_co_max", "dec")}\n'
                'INVARIANT Law\nINVARIANT Emit\n')
    return os.path.basename(path)


def _samples(run, sizes: dict) -> str:
    """Seeded samples beyond the exhaustive windows: ms values up to 2^53/1000 and long decimal coefficients."""
    rnd = random.Random(run.seed)
    top = 2 ** 53 // 1000
    ts = set()
    while len(ts) < sizes['ts_samples']:
        bits = rnd.randint(18, 43)
        v = rnd.getrandbits(bits)
        if 0 <= v <= top:
            ts.add(v)
    dec = set()
    while len(dec) < sizes['dec_samples']:
        n = rnd.randint(4, 18)
        dec.add(rnd.randint(10 ** (n - 1), 10 ** n - 1))
    path = os.path.join(run.tmp, 'c18_samples.json')
    with open(path, 'w') as f:
        json.dump({'ts': [_ds(v) for v in sorted(ts)], 'dec': [_ds(v) for v in sorted(dec)]}, f)
    return path


def emit_cases(run, sizes: dict) -> dict[str, list]:
    """Run Scalars.tla once per part (in parallel processes); return the printed cases per part."""
    samples = _samples(run, sizes)
    results: dict = {}
    errors: list = []

    def one(part):
        try:
            cfg = _write_cfg(part, part, sizes)
            results[part] = run_tlc('Scalars', cfg, workers=1, env={'SAMPLES_FILE': samples}, timeout=840,
                                    heap='4g')
        except Exception as ex:  # noqa: BLE001
            errors.append(ex)

    parts = PARTS if sizes['parallel_parts'] else ('all',)
    threads = [threading.Thread(target=one, args=(p,)) for p in parts]
    for t in threads:
        t.start()
    for t in threads:
        t.join()
    for name in os.listdir(SPEC_DIR):
        if name.startswith('_gen_c18_'):
            os.remove(os.path.join(SPEC_DIR, name))
    if errors:
        raise errors[0] if isinstance(errors[0], MachineryError) else MachineryError(repr(errors[0]))
    cases: dict[str, list] = {p: [] for p in PARTS}
    part_of_kind = {'ts1': 'ts', 'ts2': 'ts', 'dpy': 'dec', 'dxml': 'dec', 'durxml': 'dur', 'durpy': 'dur',
                    'dtxml': 'dt', 'dtpy': 'dt', 'lex': 'lex'}
    for part in parts:
        res = run.add_tlc(results[part])
        got = json_lines(res.stdout, 'CASE')
        if len(got) != res.distinct or not got:
            raise MachineryError(f'Scalars/{part}: {res.distinct} states but {len(got)} cases printed')
        for item in got:
            cases[part_of_kind[item['c']['k']]].append(item)
    for part in PARTS:
        if not cases[part]:
            raise MachineryError(f'Scalars: no case of part {part} was enumerated')
    return cases


# ------------------------------------------------------------------------------------------ findings
def _class_of(real: Real, rec: dict) -> str:
    c = rec['c']
    k = c['k']
    if k in ('dpy', 'dxml'):
        # Decimal(lexical) keeps the exponent of the lexical form; str() of the python value decides the code path
        d = Decimal(lex_str(rec['lex'])) if k == 'dxml' else Decimal((1 if c['neg'] else 0, tuple(c['co']) + (0,) * c.get('pad', 0), c['ex'] - c.get('pad', 0)))
        s = str(d)
        return 'str_has_negative_exponent' if 'E-' in s else 'str_has_positive_exponent' if 'E+' in s else 'str_plain'
    if k == 'lex':
        d = c['d']
        if d.startswith('ws_'):
            return 'whitespace'
        if c['ty'] == 'boolean':
            return 'not_a_boolean_literal'
        if d.startswith('exp_'):
            return 'exponent'
        if d.startswith('underscore'):
            return 'underscore'
        if d in ('minus', 'plus') and c['ty'] in ('unsignedInt', 'unsignedLong', 'timestamp'):
            return 'sign_on_unsigned'
        if d in ('upper', 'capital', 'lower', 'unit_lower'):
            return 'letter_case'
        return d
    if k in ('ts2', 'durpy'):
        return c['ty']
    return '-'


TO_PY_CLAUSES = {'lex_reject', 'lex_accept', 'lex_value', 'dec_to_py_value', 'dur_to_py_value', 'dt_to_py_value',
                 'dec_py_xml_py'}
PART_OF = {'ts1': 'timestamp', 'ts2': 'timestamp', 'dpy': 'decimal', 'dxml': 'decimal', 'durxml': 'duration',
           'durpy': 'duration', 'dtxml': 'datetime', 'dtpy': 'datetime', 'lex': 'lexical_space'}


def _call_text(rec: dict) -> str:
    c, tg = rec['c'], rec['tg']
    lexical = lex_str(rec['lex'])
    k = c['k']
    if k in ('ts1', 'dxml', 'durxml', 'dtxml'):
        return f'{tg}: to_xml(to_py({lexical!r}))'
    if k == 'lex':
        return f'{tg}: to_py({lexical!r}) as {c["ty"]}'
    return f'{tg}: to_py(to_xml({rec.get("py_in")}))'


def _py_in(c: dict) -> str:
    k = c['k']
    if k == 'ts2':
        us = _num(c['ms']) * 1000 + c['sub']
        return {'float': repr(us / 10 ** 6), 'Decimal': repr(Decimal(us).scaleb(-6)), 'int': repr(us // 10 ** 6)}[c['ty']]
    if k == 'dpy':
        return repr(Decimal((1 if c['neg'] else 0, tuple(c['co']) + (0,) * c.get('pad', 0), c['ex'] - c.get('pad', 0))))
    if k == 'durpy':
        ns = c['sec'] * 10 ** 9 + c['us'] * 1000 + c['sub']
        return {'float': repr(ns / 10 ** 9), 'Decimal': repr(Decimal(ns).scaleb(-9)), 'int': repr(c['sec'])}[c['ty']]
    return ''


def _actual_text(a: dict) -> str:
    out = {}
    for key, v in a.items():
        out[key] = ''.join(v) if key == 'xml' else v
    return json.dumps(out, default=str)



# ------------------------------------------------------------------------------------------ canaries
def _canaries() -> list[tuple[dict, str | None]]:
    """Hand-made records with the clause TLC must name (None: must be accepted) - guards against a vacuous judge."""
    def dec(neg, co, ex, special='none'):
        return {'special': special, 'neg': neg, 'co': co, 'ex': ex}

    ts1 = {'k': 'ts1', 'ms': [1, 0, 0, 1], 'f': 'canon'}
    ts2 = {'k': 'ts2', 'ms': [1, 0, 0, 1], 'sub': 250, 'ty': 'Decimal'}
    dpy = {'k': 'dpy', 'neg': False, 'co': [1, 2, 3], 'ex': -2}
    wide = {'k': 'dpy', 'neg': False, 'co': [1, 2, 3], 'ex': 18}
    dxml = {'k': 'dxml', 'neg': True, 'co': [5], 'ex': -1, 'f': 'nointzero'}
    durx = {'k': 'durxml', 'hp': False, 'h': 0, 'mp': True, 'm': 2, 'sp': True, 's': 1, 'fr': [5]}
    durp = {'k': 'durpy', 'sec': 61, 'us': 500000, 'sub': 0, 'ty': 'Decimal'}
    dt = {'k': 'dtxml', 'yneg': False, 'y': [2, 0, 2, 4], 'mo': 2, 'dy': 28, 'tm': 'hms', 'hh': 9, 'mi': 5, 'ss': 6,
          'fr': [5], 'tz': '+', 'tzh': 5, 'tzm': 30}
    dtv = {'yneg': False, 'y': [2, 0, 2, 4], 'mo': 2, 'dy': 28, 'tm': 'hms', 'sod': 32706, 'ns': 500000000,
           'tz': 'off', 'off': 330}
    lex_t = {'k': 'lex', 'ty': 'boolean', 'base': list('true'), 'd': 'upper'}
    lex_p = {'k': 'lex', 'ty': 'boolean', 'base': list('true'), 'd': 'plain'}
    lex_w = {'k': 'lex', 'ty': 'integer', 'base': ['7'], 'd': 'ws_lead'}
    lex_m = {'k': 'lex', 'ty': 'unsignedLong', 'base': ['7'], 'd': 'minus'}
    lex_e = {'k': 'lex', 'ty': 'decimal', 'base': list('1.5'), 'd': 'exp_E'}
    lex_d = {'k': 'lex', 'ty': 'duration', 'base': list('PT1H2M3S'), 'd': 'plain'}
    lex_n = {'k': 'lex', 'ty': 'enum:MetricCategory', 'base': list('Msrmt'), 'd': 'plain'}
    iv = {'neg': False, 'm': [7]}
    return [
        ({'c': ts1, 'a': {'st': 'ok', 'xml': list('1001')}}, None),
        ({'c': ts1, 'a': {'st': 'ok', 'xml': list('1000')}}, 'ts1_value'),
        ({'c': ts1, 'a': {'st': 'ok', 'xml': list('01001')}}, 'ts1_identical'),
        ({'c': ts1, 'a': {'st': 'ok', 'xml': list('1001.0')}}, 'ts1_value'),
        ({'c': ts1, 'a': {'st': 'exc2:ValueError', 'xml': []}}, 'completes'),
        ({'c': ts2, 'a': {'st': 'ok', 'xml': list('1001'), 'err': [2, 5, 0, 0, 0, 0]}}, None),
        ({'c': ts2, 'a': {'st': 'ok', 'xml': list('1001'), 'err': [1, 0, 0, 0, 0, 0, 0]}}, 'ts2_lt_1ms'),
        ({'c': ts2, 'a': {'st': 'ok', 'xml': list('1003'), 'err': [9, 9, 9, 9, 9, 9]}}, 'ts2_xml_near'),
        ({'c': dpy, 'a': {'st': 'ok', 'xml': list('1.230'), 'py': dec(False, [1, 2, 3, 0], -3)}}, None),
        ({'c': dpy, 'a': {'st': 'ok', 'xml': list('123E-2'), 'py': dec(False, [1, 2, 3], -2)}}, 'dec_no_exponent'),
        ({'c': dpy, 'a': {'st': 'ok', 'xml': list('1,23'), 'py': dec(False, [1, 2, 3], -2)}}, 'dec_lexical'),
        ({'c': dpy, 'a': {'st': 'ok', 'xml': list('1.24'), 'py': dec(False, [1, 2, 3], -2)}}, 'dec_to_xml_value'),
        ({'c': dpy, 'a': {'st': 'ok', 'xml': list('1.23'), 'py': dec(False, [1, 2, 3], -1)}}, 'dec_py_xml_py'),
        ({'c': dpy, 'a': {'st': 'ok', 'xml': list('1.23'), 'py': dec(False, [0], 0, 'nan')}}, 'dec_py_xml_py'),
        ({'c': wide, 'a': {'st': 'ok', 'xml': list('123000000000000000001'), 'py': dec(False, [1], 0)}}, None),
        ({'c': wide, 'a': {'st': 'ok', 'xml': list('1.23e20'), 'py': dec(False, [1, 2, 3], 18)}}, 'dec_no_exponent'),
        ({'c': dxml, 'a': {'st': 'ok', 'xml': list('-0.5'), 'py': dec(True, [5, 0], -2)}}, None),
        ({'c': dxml, 'a': {'st': 'ok', 'xml': list('-0.5'), 'py': dec(False, [5], -1)}}, 'dec_to_py_value'),
        ({'c': dxml, 'a': {'st': 'ok', 'xml': list('-.05'), 'py': dec(True, [5], -1)}}, 'dec_to_xml_value'),
        ({'c': durx, 'a': {'st': 'ok', 'xml': list('PT121.5S'), 'py': {'sec': 121, 'ns': 499999100}}}, None),
        ({'c': durx, 'a': {'st': 'ok', 'xml': list('PT2M1.5S'), 'py': {'sec': 121, 'ns': 500002000}}}, 'dur_to_py_value'),
        ({'c': durx, 'a': {'st': 'ok', 'xml': list('P0DT2M1.5S'), 'py': {'sec': 121, 'ns': 500000000}}}, 'dur_lexical'),
        ({'c': durx, 'a': {'st': 'ok', 'xml': list('PT2M1.500002S'), 'py': {'sec': 121, 'ns': 500000000}}},
         'dur_xml_py_xml'),
        ({'c': durp, 'a': {'st': 'ok', 'xml': list('PT1M1.5S'), 'err': 1000}}, None),
        ({'c': durp, 'a': {'st': 'ok', 'xml': list('PT1M1.5S'), 'err': 1001}}, 'dur_py_xml_py'),
        ({'c': durp, 'a': {'st': 'ok', 'xml': list('PT1M1.6S'), 'err': 0}}, 'dur_to_xml_value'),
        ({'c': dt, 'a': {'st': 'ok', 'xml': list('2024-02-28T09:05:06.5+05:30'), 'py': dtv}}, None),
        ({'c': dt, 'a': {'st': 'ok', 'xml': list('2024-02-28T09:05:06.5+05:30'), 'py': {**dtv, 'off': 300}}},
         'dt_to_py_value'),
        ({'c': dt, 'a': {'st': 'ok', 'xml': list('2024-2-28T09:05:06.5+05:30'), 'py': dtv}}, 'dt_lexical'),
        ({'c': dt, 'a': {'st': 'ok', 'xml': list('2024-02-28T09:05:06.500002+05:30'), 'py': dtv}}, 'dt_xml_py_xml'),
        ({'c': dt, 'a': {'st': 'ok', 'xml': list('2024-02-28T09:05:06.5Z'), 'py': dtv}}, 'dt_xml_py_xml'),
        ({'c': {**dt, 'k': 'dtpy'}, 'a': {'st': 'ok', 'xml': list('2024-02-28T09:05:06.5+05:30'), 'py': dtv}}, None),
        ({'c': {**dt, 'k': 'dtpy'}, 'a': {'st': 'ok', 'xml': list('2024-02-28T09:05:07+05:30'), 'py': dtv}},
         'dt_to_xml_value'),
        ({'c': lex_t, 'a': {'st': 'raise', 'exc': 'ValueError'}}, None),
        ({'c': lex_t, 'a': {'st': 'value', 'v': {'b': False}}}, 'lex_reject'),
        ({'c': lex_p, 'a': {'st': 'value', 'v': {'b': True}, 'xst': 'ok', 'xml': list('1')}}, None),
        ({'c': lex_p, 'a': {'st': 'raise', 'exc': 'ValueError'}}, 'lex_accept'),
        ({'c': lex_p, 'a': {'st': 'value', 'v': {'b': False}, 'xst': 'ok', 'xml': list('true')}}, 'lex_value'),
        ({'c': lex_p, 'a': {'st': 'value', 'v': {'b': True}, 'xst': 'ok', 'xml': list('false')}}, 'lex_xml_py_xml'),
        ({'c': lex_p, 'a': {'st': 'value', 'v': {'b': True}, 'xst': 'ok', 'xml': list('True')}}, 'lex_xml_py_xml'),
        ({'c': lex_p, 'a': {'st': 'value', 'v': {'b': True}, 'xst': 'exc:TypeError', 'xml': []}}, 'lex_xml_py_xml'),
        ({'c': lex_w, 'a': {'st': 'raise', 'exc': 'ValueError'}}, None),
        ({'c': lex_w, 'a': {'st': 'value', 'v': iv, 'xst': 'ok', 'xml': list('7')}}, None),
        ({'c': lex_w, 'a': {'st': 'value', 'v': iv, 'xst': 'ok', 'xml': list('007')}}, None),
        ({'c': lex_w, 'a': {'st': 'value', 'v': iv, 'xst': 'ok', 'xml': list('7.0')}}, 'lex_xml_py_xml'),
        ({'c': lex_w, 'a': {'st': 'value', 'v': {'neg': True, 'm': [7]}, 'xst': 'ok', 'xml': list('7')}}, 'lex_value'),
        ({'c': lex_d, 'a': {'st': 'value', 'v': {'sec': 3723, 'ns': 0}, 'xst': 'ok', 'xml': list('PT62M3S')}}, None),
        ({'c': lex_d, 'a': {'st': 'value', 'v': {'sec': 3723, 'ns': 0}, 'xst': 'ok', 'xml': list('PT1H2M4S')}},
         'lex_xml_py_xml'),
        ({'c': lex_n, 'a': {'st': 'value', 'v': {'lit': list('Msrmt')}, 'xst': 'ok', 'xml': list('Msrmt')}}, None),
        ({'c': lex_n, 'a': {'st': 'value', 'v': {'lit': list('Msrmt')}, 'xst': 'ok', 'xml': list('Clc')}},
         'lex_xml_py_xml'),
        ({'c': lex_n, 'a': {'st': 'value', 'v': {'lit': list('Clc')}, 'xst': 'ok', 'xml': list('Msrmt')}}, 'lex_value'),
        ({'c': lex_m, 'a': {'st': 'value', 'v': {'neg': True, 'm': [7]}}}, 'lex_reject'),
        ({'c': lex_e, 'a': {'st': 'value', 'v': dec(False, [1, 5], 2)}}, 'lex_reject'),
        ({'c': lex_e, 'a': {'st': 'raise', 'exc': 'InvalidOperation'}}, None),
    ]


def check_canaries(can: list, got: dict[int, str], offset: int):
    bad = [(i, can[i][1], got.get(offset + i)) for i in range(len(can)) if got.get(offset + i) != can[i][1]]
    if bad:
        raise MachineryError(f'ScalarsTrace does not judge the canary records as intended (index, expected, got): {bad}')


# ------------------------------------------------------------------------------------------ check
def _sizes(run) -> dict:
    return run.pick(
        {'big': False, 'ts_dense': 5000, 'ts_win': 200, 'ts2_dense': 600, 'dec_co_max': 29, 'ts_samples': 80,
         'dec_samples': 12, 'prop_stride': 5, 'parallel_parts': False},
        {'big': True, 'ts_dense': 200000, 'ts_win': 10000, 'ts2_dense': 30000, 'dec_co_max': 999, 'ts_samples': 3000,
         'dec_samples': 400, 'prop_stride': 7, 'parallel_parts': True})


def build_records(real: Real, cases: dict[str, list], stride: int) -> list[dict]:
    records = []
    for part in PARTS:
        for i, item in enumerate(cases[part]):
            c = item['c']
            if part == 'lex':
                targets = LEX_TARGETS[c['ty']]
                if c['d'] == 'empty':  # an empty element / list attribute is "no value", not a lexical value
                    targets = [t for t in targets if not t.startswith('prop:N') and t != 'prop:DecList']
            else:
                targets = TARGETS[part]
                if i % stride:  # the wrapping properties on every stride-th case, the converter on all
                    targets = targets[:1]
                elif part == 'dec':
                    targets = [t for t in targets if t != 'prop:Qi' or not c['neg']]
            for tg in targets:
                rec = {'c': c, 'tg': tg, 'a': drive(real, item, tg), 'lex': item['lex']}
                if item['x'] != '-':
                    rec['x'] = item['x']
                records.append(rec)
    return records


class _Slice:
    """What tracecheck.validate needs of a Run, with a private scratch directory (parallel validation)."""

    def __init__(self, run, i: int):
        self.tmp = os.path.join(run.tmp, f'judge{i}')
        os.makedirs(self.tmp, exist_ok=True)
        self.tlc: list = []
        self.traces_validated = 0


def judge(run, records: list[dict]) -> dict[int, str]:
    """Let TLC judge all records (ScalarsTrace.tla); return {record index: first failing clause}."""
    hdr = {'c': {'k': 'hdr'}, 'tg': '-', 'a': {'st': 'ok'}}
    traces = []
    for start in range(0, len(records), BATCH):
        traces.append([hdr] + [{'c': r['c'], 'tg': r['tg'], 'a': r['a']} for r in records[start:start + BATCH]])
    chunk = run.pick(100, 400)
    workers = max(1, min(JUDGE_WORKERS, -(-len(traces) // chunk)))
    per = -(-len(traces) // workers)
    slices = [_Slice(run, i) for i in range(workers)]
    out: list = [None] * workers
    errors: list = []

    def one(i):
        try:
            out[i] = tracecheck.validate(slices[i], 'ScalarsTrace', 'ScalarsTrace.cfg', traces[i * per:(i + 1) * per],
                                         chunk=chunk, timeout=840)
        except Exception as ex:  # noqa: BLE001
            errors.append(ex)

    threads = [threading.Thread(target=one, args=(i,)) for i in range(workers)]
    for t in threads:
        t.start()
    for t in threads:
        t.join()
    if errors:
        raise errors[0] if isinstance(errors[0], MachineryError) else MachineryError(repr(errors[0]))
    first: dict[int, str] = {}
    for i in range(workers):
        run.tlc.extend(slices[i].tlc)
        for ti, li, clause in out[i]:
            idx = (i * per + ti) * BATCH + li - 1
            if li < 1 or idx >= len(records):
                raise MachineryError(f'REJECT for a record that does not exist: trace {i * per + ti} record {li}')
            first.setdefault(idx, clause)
    run.traces_validated += len(records)
    return first


def report(run, real: Real, records: list[dict], failing: dict[int, str], keep_replay: bool = True):
    # a failure of a wrapping property that the converter shows as well is the converter's
    conv_fail = {}
    for idx, clause in failing.items():
        r = records[idx]
        if not r['tg'].startswith('prop:'):
            conv_fail[(json.dumps(r['c'], sort_keys=True), clause)] = True
    stats: dict[str, int] = {}
    for idx in sorted(failing):
        clause = failing[idx]
        r = records[idx]
        c = r['c']
        direction = 'to_py' if clause in TO_PY_CLAUSES else 'to_xml'
        if clause == 'completes':
            xml_first = c['k'] in ('ts1', 'dxml', 'durxml', 'dtxml')
            direction = 'to_py' if (r['a']['st'].startswith('exc1') == xml_first) else 'to_xml'
        function, configured = real.fault_of(r['tg'], direction)
        descr = {'check': 'scalars', 'part': PART_OF[c['k']], 'clause': clause, 'class': _class_of(real, r),
                 'function': function}
        if descr['class'] == 'sign_on_unsigned':
            descr['configured'] = configured
        if r['tg'].startswith('prop:') and (json.dumps(c, sort_keys=True), clause) not in conv_fail:
            descr['via'] = type(getattr(real.Probe, r['tg'][5:])).__name__
        r['py_in'] = _py_in(c)
        what = f'{_call_text(r)} -> {_actual_text(r["a"])}: clause {clause} fails'
        if c['k'] == 'lex':
            what += f' (specification expects: {r.get("x")})'
        key = f'{descr["part"]}/{clause}/{descr["class"]}'
        stats[key] = stats.get(key, 0) + 1
        run.violation(descr, what, None if not keep_replay else {'case': c, 'lexical': lex_str(r['lex']), 'python_input': r['py_in'],
                                    'target': r['tg'], 'actual': r['a'], 'clause': clause,
                                    'how': 'drive(Real(), {"c": case, "lex": list(lexical), "x": "-"}, target) in '
                                           'verif/checks/c18.py, judged by specs/ScalarsTrace.tla'})
    run.note('failing_records_by_clause', stats)


def check(run, replay_path=None):
    real = Real()
    if replay_path:
        with open(replay_path) as f:
            rep = json.load(f)['replay']
        item = {'c': rep['case'], 'lex': list(rep['lexical']), 'x': '-'}
        records = [{'c': item['c'], 'tg': rep['target'], 'a': drive(real, item, rep['target']), 'lex': item['lex']}]
        failing = judge(run, records)
        print(f'replay {replay_path}: actual={_actual_text(records[0]["a"])} failing clause={failing.get(0)}')
        report(run, real, records, failing, keep_replay=False)
        return
    sizes = _sizes(run)
    cases = emit_cases(run, sizes)
    run.note('cases_per_part', {p: len(v) for p, v in cases.items()})
    run.note('sizes', sizes)
    records = build_records(real, cases, sizes['prop_stride'])
    run.evaluations = len(records)
    per_kind: dict[str, int] = {}
    for r in records:
        per_kind[r['c']['k']] = per_kind.get(r['c']['k'], 0) + 1
        run.distinct_traces.add((r['c']['k'], r['tg'], lex_str(r['lex']) or json.dumps(r['c'], sort_keys=True)))
    run.note('records_per_kind', per_kind)
    for k in ('ts1', 'dpy', 'lex'):
        r = next(x for x in records if x['c']['k'] == k)
        run.sample({'case': r['c'], 'target': r['tg'], 'actual': _actual_text(r['a'])})
    can = _canaries()
    failing = judge(run, records + [{'c': r['c'], 'tg': 'canary', 'a': r['a']} for r, _ in can])
    check_canaries(can, failing, len(records))
    run.note('canary_records', len(can))
    failing = {i: cl for i, cl in failing.items() if i < len(records)}
    report(run, real, records, failing)
    # informative: decimals of the quantified domain outside xsd totalDigits=18 whose value to_xml changes (not judged)
    changed = 0
    for r in records:
        if r['c']['k'] == 'dpy' and r['a']['st'] == 'ok' and r['a']['py']['special'] == 'none':
            c, p = r['c'], r['a']['py']
            if Decimal((1 if c['neg'] else 0, tuple(c['co']) + (0,) * c.get('pad', 0), c['ex'] - c.get('pad', 0))) != Decimal((1 if p['neg'] else 0, tuple(p['co']), p['ex'])):
                changed += 1
    run.note('dpy_records_with_changed_value_incl_beyond_18_digits', changed)
    run.assumptions += [
        'timestamps: exhaustive 0..ts_dense and windows of ts_win at 2^31, 2^40, 2^53/1000, seeded samples beyond',
        'decimals: every coefficient 0..dec_co_max, boundary coefficients of 16..18 digits and seeded samples, '
        'exponents -18..18, both signs; the value clauses are judged on the xsd:decimal value space with '
        'totalDigits=18 (i/10^n, |i| < 10^18, 0 <= n <= 18); beyond it only "no exponent" and "lexically valid"',
        'DecimalConverter.USE_DECIMAL_TYPE = True (default); python floats as decimal values are not driven',
        'durations below 2^31 s (float seconds resolve 1 us there); H/M/S forms only (SDPi restriction of the code)',
        'python float inputs: distance after the round trip measured exactly (fractions) in whole ns, compared by TLC',
        'out-of-type forms judged: see Scalars!LexCases; leading/trailing blanks and a sign on unsigned types '
        'may be accepted with the normalised value or rejected',
    ]
