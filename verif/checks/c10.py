"""C10 - context association invariants hold after any sequence of context changes.

spec:    specs/Context.tla (set_location + SetContextState handler as meant: marks at the MdibVersion of the commit);
         TLC checks OneAssoc, UnbindMarked, BindMarked exhaustively and generates call sequences
binding: real SdcProvider with the tutorial role provider; SetContextState invoked by the real consumer context
         service client over the loop-back transport; provider context-state projection after every call judged by
         TLC (specs/ContextTrace.tla)
"""
from __future__ import annotations

from verif import tracecheck
from verif.mdibharness import Projector, apply_tok
from verif.mirrorharness import install_clock
from verif.pair import Pair
from verif.tlc import MachineryError, json_lines, run_tlc

CTX = [f'c{i}' for i in range(1, 9)]
HANDLES = ['pc', 'lc']
ASSOC = {'Assoc': 'ASSOCIATED', 'Dis': 'DISASSOCIATED', 'No': 'NO_ASSOCIATION'}


class CtxSession:
    def __init__(self, **kw):
        install_clock()
        import os
        from sdc11073.provider import RoleProviderComponents
        from tutorial.productandroles.exampleproduct import ExtendedExampleProduct
        from tutorial.productandroles.waveformprovider.waveformproviderimpl import GenericWaveformProvider
        from verif.common import VERIF
        # the extended tutorial product serves SetContextState for the location context too (operation opSetLocCtx of
        # the fixture), so that location changes and SetContextState calls meet on the same context descriptor
        roles = RoleProviderComponents(role_provider_class=ExtendedExampleProduct,
                                       waveform_provider_class=GenericWaveformProvider)
        self.pair = Pair(fixture=os.path.join(VERIF, 'fixtures', 'one_mds_locop.xml'), role_provider=roles, **kw)
        self.mdib = self.pair.mdib
        self.proj = Projector(HANDLES, CTX)
        self.proj.map_c = {}
        self.n = 0
        self.client = self.pair.consumer.context_service_client

    def _learn(self):
        """Give the context states the provider created (uuid handles) the smallest free abstract names."""
        known = set(self.proj.map_c.values())
        new = [st for st in self.mdib.context_states.objects if st.Handle not in known]
        new.sort(key=lambda st: (st.BindingMdibVersion or 0, st.DescriptorHandle, st.Handle))
        for st in new:
            free = [c for c in CTX if c not in self.proj.map_c]
            if not free:
                return len(new)
            self.proj.map_c[free[0]] = st.Handle
        return 0

    def snap(self):
        unmapped = self._learn()
        p = self.proj.project(self.mdib)
        return p, unmapped

    def run(self, beh):
        from sdc11073.location import SdcLocation
        pm_types = self.mdib.data_model.pm_types
        p, u = self.snap()
        trace = [{'act': 'Init', 'res': 'ok', 'post': p, 'unmapped': u}]
        for rec in beh:
            self.n += 1
            out = {'act': rec['act'], 'model_res': rec['res']}
            res = 'ok'
            if rec['act'] == 'SetLocation':
                self.pair.provider.set_location(SdcLocation(fac='fac', poc='poc', bed=f'bed{self.n}'))
            else:
                props = []
                dropped = False
                for pr in rec['props']:
                    d = self.proj.map_d[pr['d']]
                    if pr['tgt'] == 'new':
                        st = self.client.mk_proposed_context_object(d)
                    elif pr['tgt'] == 'unknown':
                        st = self.client.mk_proposed_context_object(d)
                        st.Handle = 'no_such_handle'
                    else:
                        real = self.proj.map_c.get(pr['tgt'])
                        cst = None if real is None else self.pair.cmdib.context_states.handle.get_one(real, allow_none=True)
                        if cst is None or cst.DescriptorHandle != d:
                            dropped = True     # model and implementation named the states differently
                            continue
                        st = self.client.mk_proposed_context_object(d, real)
                    st.ContextAssociation = getattr(pm_types.ContextAssociation, ASSOC[pr['assoc']])
                    apply_tok(st, self.n)
                    props.append(st)
                out['props'] = rec['props']
                out['dropped'] = dropped
                if props:
                    op = {'pc': 'opSetPatCtx', 'lc': 'opSetLocCtx'}[rec['props'][0]['d']]
                    out['op'] = op
                    fut = self.client.set_context_state(op, props)
                    result = fut.result(timeout=10)
                    state = result.InvocationInfo.InvocationState.value
                    res = 'ok' if state == 'Fin' else f'failed:{state}'
            p, u = self.snap()
            out.update({'res': res, 'post': p, 'unmapped': u})
            trace.append(out)
        return trace

    def close(self):
        self.pair.stop()


RACES_QUICK = [('L_setloc_a', 'L_setloc_b'), ('L_setloc_a', 'W_ctx_newloc')]
# (three-thread races made the thorough tier run longer than 40 minutes; the two-thread races with more schedules)
RACES_THOROUGH = RACES_QUICK + [('L_setloc_a', 'W_ctx')]


def concurrent_changes(run):
    """Location changes racing with each other and with a context transaction of the application: every interleaving
    the locks admit (specs/Threads.tla), executed on real threads; association invariants judged on every MdibVersion."""
    from verif.checks.c07 import run_scenarios
    run_scenarios(run, run.pick(RACES_QUICK, RACES_THOROUGH), run.pick(40, 250),
                  {'ctx_at_most_one_associated', 'ctx_binding_marks', 'one_version_per_commit', 'request_answered'},
                  prefix='c10')


def check(run, replay_path=None):
    concurrent_changes(run)
    res = run_tlc('ContextMC', 'Context_mc.cfg', coverage=True, timeout=1800)
    run.add_tlc(res, ['SetLocation', 'SetContextState'])
    num = run.pick(150, 600)      # (4000 sessions from a pool of 12000 did not finish within 50 minutes)
    pool = run.pick(800, 4000)
    res = run_tlc('ContextSim', 'Context_sim.cfg', workers=1, simulate=f'num={pool}', depth=16, seed=run.seed)
    run.add_tlc(res)
    behs = json_lines(res.stdout, 'BEH')
    if len(behs) < pool // 2:
        raise MachineryError(f'expected about {pool} behaviours, got {len(behs)}')
    # replayed: a cover of every situation label TLC attached to the calls (which kind of target a proposal names,
    # how many states are associated, a location change that meets a re-associated state ...) + a random fill
    from verif.checks.mdibcommon import select_covering
    behs, stats = select_covering(behs, num, run.seed, k=run.pick(2, 4))
    run.note('situation_coverage', stats)
    # test purposes (breadth-first TLC run): a shortest history of single-proposal calls for every situation label
    res = run_tlc('ContextMC', 'Context_purpose.cfg', workers=1, timeout=1800)
    run.add_tlc(res)
    purposes = json_lines(res.stdout, 'BEH')
    got = {lab for b in purposes for r in b for lab in r.get('sit', [])}
    if not any(lab.startswith('P:pc:new:Assoc') and lab.endswith(':dis-behind-assoc') for lab in got):
        raise MachineryError('test purpose "association meets a disassociated state behind the associated one" not reached')
    run.note('test_purposes', len(purposes))
    behs = purposes + behs
    traces = []
    for i, beh in enumerate(behs):
        ses = CtxSession(async_mgr=bool(i % 2))
        try:
            traces.append(ses.run(beh))
        finally:
            ses.close()
    rejects = tracecheck.validate(run, 'ContextTrace', 'ContextTrace.cfg', traces, chunk=1000)
    run.count('calls', sum(len(t) - 1 for t in traces))
    run.count('calls_accepted', sum(1 for t in traces for r in t[1:] if r['res'] == 'ok'))
    run.count('calls_rejected', sum(1 for t in traces for r in t[1:] if r['res'] != 'ok'))
    run.count('steps_matching_operational_spec_result',
              sum(1 for t in traces for r in t[1:] if (r['res'] == 'ok') == (r['model_res'] == 'ok')))
    for t in traces:
        run.distinct_traces.add(tuple((r['act'], json_key(r.get('props')), r['res']) for r in t))
    run.sample([{k: v for k, v in r.items() if k != 'post'} for r in traces[0][:6]])
    by_trace = {}
    for r in sorted(rejects, key=lambda x: (x[0], x[1])):
        by_trace.setdefault(r[0], []).append(r)
    for ti, rs in by_trace.items():
        for (_, li, clause) in rs:
            rec = traces[ti][li]
            kinds = sorted({('new' if p['tgt'] == 'new' else 'existing') + ':' + p['assoc'] for p in rec.get('props', [])})
            descr = {'check': 'context', 'clause': clause, 'act': rec['act'], 'proposals': '+'.join(kinds)}
            if run.is_known(descr):
                continue
            run.violation(descr, f'{clause} fails at {rec["act"]} {kinds} (record {li})',
                          {'behaviour': behs[ti], 'trace': traces[ti], 'failing_record': li})
            break
    run.assumptions += ['SetContextState invoked through the real consumer client and the queued operation path',
                        'proposals for existing states use ContextAssociation Assoc or Dis; new states Assoc or No']


def json_key(x):
    import json
    return json.dumps(x, sort_keys=True)
