"""The consumer side of WS-Eventing (specs/EventingClient.tla) - not one of the listed properties; run with C08.

spec:    specs/EventingClient.tla (client belief x source table x manager table; fates of the transport); TLC checks
         BeliefNotLonger, BeliefHasCause, FoundOut, NoResurrection, RoundKeepsAlive, QuietWhenEnded exhaustively and
         generates behaviours
binding: every behaviour runs on a real SdcConsumer (its ConsumerSubscriptionManager and ConsumerSubscription objects)
         against the real subscription manager of a real SdcProvider; one virtual clock for both sides, the provider's
         housekeeping runs one iteration per permit, the manager's renew loop body runs exactly once per Round, the
         transport fails as scripted.  After every step the belief of the client, the table of the source and the
         manager's table are recorded; specs/EventingClientTrace.tla evaluates Effect on the state before each step.
"""
from __future__ import annotations

import threading

from verif import tracecheck
from verif.checks import c08
from verif.pair import Pair
from verif.tlc import MachineryError, json_lines, run_tlc

IDS = ['s1', 's2']
MAXDUR = 2
T0 = 5000.0
MC_ACTIONS = ['Subscribe', 'Renew', 'Unsubscribe', 'Round', 'UnsubscribeAll', 'Housekeeping', 'EndAll', 'Do']


class CClock:
    """`time` of sdc11073.consumer.subscription: the provider's virtual clock; sleep() of the thread that runs a Round
    counts the iterations of the manager's loop."""

    def __init__(self, vt):
        import time as _t
        self._real = _t
        self.vt = vt
        self.owner = None
        self.on_sleep = None

    def time(self):
        return self.vt.now

    def sleep(self, secs):
        if self.on_sleep is not None and threading.current_thread() is self.owner:
            self.on_sleep()
        else:
            self._real.sleep(min(secs, 0.05))

    def __getattr__(self, name):
        return getattr(self._real, name)


class ClientSession:
    def __init__(self, async_mgr=False):
        import sdc11073.consumer.subscription as csub
        import sdc11073.provider.subscriptionmgr_base as smb
        self.smb, self.csub = smb, csub
        self.vt = c08.VTime()
        self.cclock = CClock(self.vt)
        smb.time = self.vt
        csub.time = self.cclock
        try:
            self.pair = Pair(async_mgr=async_mgr, max_subscription_duration=MAXDUR, consumer_init_mdib=False)
        except Exception:
            self._restore()
            raise
        self.net = self.pair.net
        self.consumer = self.pair.consumer
        self.cmgr = self.consumer.subscription_mgr
        self.pmgr = self.pair.provider.hosted_services.dpws_hosted_services['StateEvent'].subscriptions_manager
        self.n_hk = len(self.pair.provider._subscriptions_managers)  # noqa: SLF001
        # the subscriptions the consumer made when it started are not part of the history
        self.cmgr.unsubscribe_all()
        self.vt.now += 3
        self.vt.run_housekeeping(self.n_hk)
        if list(self.pmgr._subscriptions.objects):  # noqa: SLF001
            raise MachineryError('start-up subscriptions were not removed by the housekeeping')
        self.t0 = self.vt.now
        self.hosted = next(h for h in self.consumer.host_description.relationship.Hosted
                           if any(q.localname.startswith('StateEvent') for q in (h.Types or [])))
        actions = self.consumer.sdc_definitions.Actions
        self.filters = {'s1': actions.EpisodicMetricReport, 's2': actions.EpisodicAlertReport}
        self.subs = {}            # id -> ConsumerSubscription (the latest object made for that id)
        self.fates = {}           # id -> fate of its next request(s) in this step
        self.lost_end = set()
        self.net.on_post = self._on_post
        self.log_pos = len(self.net.log)
        self.exact = True

    def _restore(self):
        self.smb.time = self.vt._real      # noqa: SLF001
        self.csub.time = self.cclock._real  # noqa: SLF001

    # ------------------------------------------------------------------ transport
    def _id_of(self, wire):
        """Which subscription a wire belongs to (by the addresses the two sides agreed on)."""
        for i, sub in self.subs.items():
            path = getattr(sub, '_subscription_manager_path', None)
            if wire.src == 'consumer' and path and wire.path.rstrip('/') == path.rstrip('/'):
                return i
            if wire.src == 'provider' and (wire.path.rstrip('/').endswith(sub.end_to_url.rstrip('/').rsplit('/', 1)[-1])):
                return i
        return None

    def _on_post(self, wire):
        from sdc11073.pysoap.soapclient import HTTPReturnCodeError
        if wire.src == 'consumer':
            i = self._pending if b'Subscribe>' in wire.data and b'Unsubscribe' not in wire.data and self._pending else self._id_of(wire)
            fate = self.fates.get(i, 'ok')
            if fate == 'status':
                return HTTPReturnCodeError(500, 'scripted', None)
            if fate == 'conn':
                return ConnectionResetError('scripted')
            if fate == 'other':
                return RuntimeError('scripted')
            return None
        if wire.src == 'provider' and b'SubscriptionEnd' in wire.data:
            i = self._id_of(wire)
            if i in self.lost_end:
                return 'drop'
        return None

    _pending = None

    # ------------------------------------------------------------------ observation
    def _ticks(self, seconds_abs):
        t = seconds_abs - self.t0
        r = int(round(t))
        if abs(t - r) > 1e-6:
            self.exact = False
        return r

    def _state(self):
        P, C = {}, {}
        by_url = {}
        for s in self.pmgr._subscriptions.objects:  # noqa: SLF001
            by_url[s.notify_to_url.geturl() if hasattr(s.notify_to_url, 'geturl') else str(s.notify_to_url)] = s
        for i in IDS:
            sub = self.subs.get(i)
            if sub is None:
                C[i] = {'sub': False, 'exp': 0, 'granted': 0}
                P[i] = {'known': False, 'exp': 0, 'unsubAt': -1}
                continue
            gr = sub.granted_expires or 0
            C[i] = {'sub': bool(sub.is_subscribed), 'exp': self._ticks(sub.expires_at) if sub.expires_at else 0,
                    'granted': self._ticks(self.t0 + gr)}
            ps = by_url.get(sub.notification_url)
            if ps is None:
                P[i] = {'known': False, 'exp': 0, 'unsubAt': -1}
            else:
                # the provider keeps (monotonic start, duration): expiry on the common clock
                exp = self.vt.now + (ps._expire_seconds - (self.vt.monotonic() - ps._started))  # noqa: SLF001
                P[i] = {'known': True, 'exp': self._ticks(exp),
                        'unsubAt': -1 if ps.unsubscribed_at is None else self._ticks(ps.unsubscribed_at)}
        held = {id(s) for s in self.cmgr.subscriptions.values()}
        tab = [i for i in IDS if i in self.subs and id(self.subs[i]) in held]
        return {'now': self._ticks(self.vt.now), 'P': P, 'C': C, 'tab': tab}

    def _sent(self):
        out = []
        for w in self.net.log[self.log_pos:]:
            if w.src != 'consumer':
                continue
            kind = next((k for k in ('Unsubscribe', 'Subscribe', 'Renew', 'GetStatus')
                         if f'/eventing/{k}<'.encode() in w.data), None)
            if kind is None:
                continue
            i = getattr(w, 'verif_id', None) or self._id_of(w)
            out.append({'kind': kind, 'i': i or 'unknown'})
        self.log_pos = len(self.net.log)
        return out

    def _rec(self, rec, ret=-1, raised=False):
        out = {k: v for k, v in rec.items()}
        out['post'] = self._state()
        out['ret'] = ret
        out['raised'] = raised
        out['sent'] = self._sent()
        out['exact'] = self.exact
        return out

    # ------------------------------------------------------------------ steps
    def step(self, rec):
        from sdc11073.xml_types import eventing_types as evt
        from sdc11073.xml_types.dpws_types import DeviceEventingFilterDialectURI
        act = rec['act']
        self.fates = {}
        if act == 'Subscribe':
            i = rec['i']
            ft = evt.FilterType()
            ft.text = self.filters[i]
            ft.Dialect = DeviceEventingFilterDialectURI.ACTION
            sub = self.consumer.mk_subscription(self.hosted, ft, [])
            self.subs[i] = sub
            self.fates = {i: rec['fate']}
            self._pending = i
            raised = False
            try:
                sub.subscribe(expires=rec['d'])
            except Exception:  # noqa: BLE001
                raised = True
            finally:
                self._pending = None
            out = self._rec(rec, -1, raised)
            for s in out['sent']:
                if s['kind'] == 'Subscribe':
                    s['i'] = i
            return out
        if act in ('Renew', 'GetStatus', 'Unsubscribe'):
            i = rec['i']
            sub = self.subs[i]
            self.fates = {i: rec['fate']}
            ret, raised = -1, False
            try:
                if act == 'Renew':
                    ret = int(round(sub.renew(expires=rec['d'])))
                elif act == 'GetStatus':
                    ret = int(round(sub.get_status()))
                else:
                    sub.unsubscribe()
            except Exception:  # noqa: BLE001
                raised = True
            return self._rec(rec, ret, raised)
        if act == 'Tick':
            self.vt.now += 1.0
            return self._rec(rec)
        if act == 'Housekeeping':
            self.vt.run_housekeeping(self.n_hk)
            return self._rec(rec)
        if act == 'EndAll':
            self.lost_end = {i for i in IDS if i not in rec['delivered']}
            try:
                if hasattr(self.pmgr, '_end_all_subscriptions'):
                    r = self.pmgr._end_all_subscriptions(True)   # noqa: SLF001
                    if hasattr(r, '__await__'):
                        raise MachineryError('async variant needs its event loop')
            finally:
                self.lost_end = set()
            return self._rec(rec)
        if act == 'Round':
            self.fates = dict(rec['fates'])
            mgr = self.cmgr
            n = [0]

            def on_sleep():
                n[0] += 1
                if n[0] >= 2:
                    mgr._run = False   # noqa: SLF001   second sleep = second iteration: stop before its body
            self.cclock.owner, self.cclock.on_sleep = threading.current_thread(), on_sleep
            try:
                mgr._run = True        # noqa: SLF001
                mgr._flexible_renew_interval_loop()   # noqa: SLF001
            finally:
                self.cclock.owner, self.cclock.on_sleep = None, None
            return self._rec(rec)
        if act == 'UnsubscribeAll':
            self.fates = dict(rec['fates'])
            ok = self.cmgr.unsubscribe_all()
            return self._rec(rec, 1 if ok else 0)
        raise MachineryError(f'unmodelled action {act}')

    def run(self, beh):
        trace = [self._rec({'act': 'Init'})]
        for rec in beh:
            trace.append(self.step(rec))
        return trace

    def close(self):
        self.net.on_post = None
        try:
            for mgr in self.pair.provider._subscriptions_managers.values():  # noqa: SLF001
                mgr._run_housekeeping_thread = False  # noqa: SLF001
            self.vt.shutdown()
            self.pair.stop()
        finally:
            self._restore()


def family(run):
    """Model check, generate, execute, validate.  Returns the rejections (trace, record, clause) and the traces."""
    res = run_tlc('EventingClientMC', 'EventingClient_mc.cfg', coverage=True, timeout=1800)
    run.add_tlc(res, MC_ACTIONS)
    num = run.pick(60, 1500)
    res = run_tlc('EventingClientMC', 'EventingClient_sim.cfg', workers=1, simulate=f'num={num * 3}', depth=13,
                  seed=run.seed + 77, timeout=1800)
    run.add_tlc(res)
    behs = json_lines(res.stdout, 'BEH')
    if len(behs) < num:
        raise MachineryError(f'expected {num * 3} client behaviours, got {len(behs)}')
    # a cover of (action, fate, belief before) first, then a seeded fill
    import random
    rnd = random.Random(run.seed)
    rnd.shuffle(behs)

    def labels(b):
        return {(r['act'], r.get('fate', ''), tuple(sorted(r.get('fates', {}).values()))) for r in b}
    left = set().union(*[labels(b) for b in behs])
    chosen = []
    for b in behs:
        if labels(b) & left:
            chosen.append(b)
            left -= labels(b)
    chosen += [b for b in behs if b not in chosen][:max(0, num - len(chosen))]
    traces = []
    for k, beh in enumerate(chosen):
        ses = ClientSession()
        try:
            traces.append(ses.run(beh))
        finally:
            ses.close()
    rejects = tracecheck.validate(run, 'EventingClientTrace', 'EventingClientTrace.cfg', traces, chunk=2000)
    run.count('client_behaviours', len(traces))
    run.count('client_steps', sum(len(t) - 1 for t in traces))
    return rejects, traces
