"""C09 - operation invocations follow the BICEPS invocation-state protocol end to end.

spec:    specs/Invocation.tla - provider part (transaction ids, response + report sequence per mode/outcome, LegalSeq)
         and consumer part shaped like OperationsManager (every interleaving of the HTTP response with the reports
         of 1-3 overlapping transactions; CompletesOnce)
binding: provider: TLC request sequences are executed on a real SdcProvider (all operation kinds of the fixture,
         direct and queued processing, scripted handlers that finish, finish-with-modification, fail or raise,
         unknown operations) through the real consumer service clients; consumer: every interleaving TLC enumerates
         is replayed on the real OperationsManager with real, XSD-valid messages.  Judged by TLC (InvocationTrace.tla).
"""
from __future__ import annotations

from decimal import Decimal

from verif import tracecheck
from verif.mdibharness import Projector
from verif.pair import Pair
from verif.tlc import MachineryError, json_lines, run_tlc

KINDS = ['set_string', 'activate', 'set_value', 'set_alert_state', 'set_context_state', 'set_metric_state',
         'set_component_state']
OPS = {'set_string': 'DN_SET', 'activate': 'AP__ON', 'set_value': 'numeric.ch0.vmd1_sco_0',
       'set_alert_state': 'as0.mds0_rem_dele', 'set_context_state': 'opSetPatCtx',
       # the last two operations exist only in fixtures/one_mds_ops.xml (copy of one_mds.xml + two operation descriptors)
       'set_metric_state': 'opSetMetricState', 'set_component_state': 'opSetComponentState'}
STATE = {'Wait': 'Wait', 'Start': 'Start', 'Fin': 'Fin', 'FinMod': 'FinMod', 'Fail': 'Fail', 'Cnclld': 'Cnclld',
         'CnclldMan': 'CnclldMan'}


# --------------------------------------------------------------------------- provider part
class ProviderSession:
    def __init__(self, slow_request_thread=False, **kw):
        # the worker threads of the operation registries look at their queue every 10 ms instead of every second: the
        # module `queue` seen by sdc11073.provider.sco is a shim whose Queue shortens the timeout of get(); the code of
        # the worker is untouched
        import queue
        import types

        from verif.mdibharness import _load_repo
        _load_repo()
        import sdc11073.provider.sco as sco

        class FastQueue(queue.Queue):
            def get(self, block=True, timeout=None):
                return super().get(block, None if timeout is None else min(timeout, 0.01))

        self._sco, self._sco_queue = sco, sco.queue
        sco.queue = types.SimpleNamespace(Queue=FastQueue, Empty=queue.Empty, Full=queue.Full)
        try:
            import os
            from verif.common import VERIF
            self.pair = Pair(fixture=os.path.join(VERIF, 'fixtures', 'one_mds_ops.xml'), **kw)
        finally:
            sco.queue = self._sco_queue
        self.proj = Projector(['vmd', 'ch', 'm1', 'pc'], [])
        self.log_pos = len(self.pair.net.log)
        self.n = 0
        self.slow = slow_request_thread
        if slow_request_thread:
            # a schedule the OS may produce at any time: the thread that serves the request is slow whenever it has an
            # OperationInvokedReport to deliver, the worker thread of the operations registry is not
            import threading
            from sdc11073.provider.sco import _OperationsWorker

            def on_post(wire):
                if wire.src == 'provider' and b'OperationInvokedReport' in wire.data \
                        and not isinstance(threading.current_thread(), _OperationsWorker):
                    return ('delay', 0.04)
                return None
            self.pair.net.on_post = on_post

    def _script(self, outcome):
        from sdc11073.provider.operations import ExecuteResult
        it = self.pair.mdib.data_model.msg_types.InvocationState

        def handler(params):
            if outcome == 'raise':
                raise RuntimeError('scripted handler error')
            st = {'fin': it.FINISHED, 'finmod': it.FINISHED_MOD, 'fail': it.FAILED}[outcome]
            return ExecuteResult(params.operation_instance.operation_target_handle, st)
        return handler

    def _invoke(self, kind, handle):
        c = self.pair.consumer
        s = c.set_service_client
        self.n += 1
        if kind == 'set_string':
            return s.set_string(handle, f'text{self.n}')
        if kind == 'activate':
            return s.activate(handle, [])
        if kind == 'set_value':
            return s.set_numeric_value(handle, Decimal(self.n))
        if kind == 'set_alert_state':
            st = self.pair.cmdib.xtra.mk_proposed_state('as0.mds0_rem')
            return s.set_alert_state(handle, st)
        if kind == 'set_metric_state':
            st = self.pair.cmdib.xtra.mk_proposed_state('numeric.ch0.vmd0')
            st.LifeTimePeriod = float(self.n)
            return s.set_metric_state(handle, [st])
        if kind == 'set_component_state':
            st = self.pair.cmdib.xtra.mk_proposed_state('ch0.vmd0')
            st.OperatingHours = self.n
            return s.set_component_state(handle, [st])
        ctx = c.context_service_client
        st = ctx.mk_proposed_context_object('PC.mds0')
        return ctx.set_context_state(handle, [st])

    def _reports(self):
        out = []
        reader = self.pair.consumer.msg_reader
        mt = self.pair.mdib.data_model.msg_types
        # in the order in which the reports ARRIVED at the subscriber
        for w in sorted(self.pair.net.log[self.log_pos:], key=lambda x: getattr(x, 'dseq', 10 ** 9)):
            if w.src == 'provider' and b'OperationInvokedReport' in w.data:
                md = reader.read_received_message(w.data)
                rep = mt.OperationInvokedReport.from_node(md.p_msg.msg_node)
                for part in rep.ReportPart:
                    inf = part.InvocationInfo
                    out.append({'tx': inf.TransactionId, 'state': inf.InvocationState.value,
                                'error': inf.InvocationError is not None,
                                'errmsg': any(bool(t.text) for t in inf.InvocationErrorMessage)})
        self.log_pos = len(self.pair.net.log)
        return out

    def _idle(self, how):
        """Let the worker run its time-out housekeeping once, with a time-out handler that raises (or not)."""
        import time
        op = self.pair.provider.get_operation_by_handle(OPS['set_string'])
        called = []

        def handler(_op):
            called.append(1)
            op._timeout_handler = None            # noqa: SLF001  once
            op.last_called_time = None
            if how == 'raises':
                raise RuntimeError('scripted error in the time-out handler of the application')

        op._operation_entity.descriptor.InvocationEffectiveTimeout = 0.001   # noqa: SLF001
        op._timeout_handler = handler             # noqa: SLF001
        op.last_called_time = time.time() - 10
        t_end = time.time() + 3
        while not called and time.time() < t_end:
            time.sleep(0.005)
        if not called:
            # (a worker that died in an EARLIER idle phase shows up in the request that follows)
            op._timeout_handler = None            # noqa: SLF001
            op.last_called_time = None
        time.sleep(0.03)

    def run(self, beh):
        import time
        trace = [{'act': 'Init', 'post': self.proj.project(self.pair.mdib)}]
        idled = False
        for i, rec in enumerate(beh):
            if rec.get('reboot'):
                # a new provider instance at the same address (its transaction ids start again); the consumer reconnects
                self.pair.provider._transaction_id = 0   # noqa: SLF001
                # (the consumer's event sink lives on a shared server of the harness: restart() registers it again,
                #  which a PathElementRegistry refuses - the application has to free the path element itself)
                self.pair.cserver.dispatcher._instances.pop(self.pair.consumer.path_prefix, None)   # noqa: SLF001
                self.pair.consumer.restart()
                self.pair.renew_all()
                self.log_pos = len(self.pair.net.log)
            if rec.get('idle', 'none') != 'none':
                self._idle(rec['idle'])
                idled = True
            kind = KINDS[(i + self.n) % len(KINDS)]
            handle = OPS[kind] if rec['known'] else 'no_such_operation'
            if rec['known']:
                op = self.pair.provider.get_operation_by_handle(handle)
                op.delayed_processing = rec['queued']
                op._operation_handler = self._script(rec['outcome'])  # noqa: SLF001
            before = self.proj.project(self.pair.mdib)
            fut = self._invoke(kind, handle)
            try:
                result = fut.result(timeout=3 if idled else 10)
            except Exception as ex:  # noqa: BLE001
                if not idled:
                    raise MachineryError(f'operation future did not complete: {ex!r}') from ex
                # the transaction never reached a final state: recorded as it is (response Wait, the reports seen)
                trace.append({'act': 'Request', 'kind': kind, 'known': rec['known'], 'queued': rec['queued'],
                              'outcome': rec['outcome'], 'idle': rec.get('idle', 'none'), 'reboot': bool(rec.get('reboot')),
                              'tx': self.pair.provider._transaction_id, 'resp': 'Wait',   # noqa: SLF001
                              'resp_error': False, 'reports': self._reports(), 'result_state': 'none',
                              'result_parts': [], 'unchanged': self.proj.project(self.pair.mdib) == before})
                continue
            time.sleep(0.06 if self.slow else 0.005)   # let both threads finish sending (reports are synchronous on the loop-back)
            resp = result.set_response.InvocationInfo
            out = {'act': 'Request', 'kind': kind, 'known': rec['known'], 'queued': rec['queued'],
                   'outcome': rec['outcome'], 'idle': rec.get('idle', 'none'), 'reboot': bool(rec.get('reboot')),
                   'tx': resp.TransactionId, 'resp': resp.InvocationState.value,
                   'resp_error': resp.InvocationError is not None,
                   'reports': [r for r in self._reports()],
                   'result_state': result.InvocationInfo.InvocationState.value,
                   'result_parts': [p.InvocationInfo.InvocationState.value for p in result.report_parts],
                   'unchanged': self.proj.project(self.pair.mdib) == before,
                   'post': None}
            del out['post']
            trace.append(out)
        return trace

    def close(self):
        self.pair.stop()


# --------------------------------------------------------------------------- consumer part
SHAPES = {
    'Shapes1': {1: ('Wait', ['Wait', 'Start', 'Fin'], False), 2: ('Wait', ['Wait', 'Start', 'Fail'], False)},
    'Shapes2': {1: ('Wait', ['Wait', 'Start', 'FinMod'], False), 2: ('Fin', ['Fin'], True)},
    'Shapes3': {1: ('Fail', ['Fail'], True), 2: ('Fail', [], True)},
    'Shapes4': {1: ('Wait', ['Wait', 'Start', 'Fin'], False), 2: ('Fail', ['Fail'], True),
                3: ('Wait', ['Wait', 'Start', 'Fail'], False)},
}


class MessageKit:
    """Builds real, XSD-valid SetStringResponse / OperationInvokedReport messages and parses them back."""

    def __init__(self):
        import sdc11073.definitions_sdc as d
        from sdc11073 import loghelper
        from sdc11073.pysoap.msgfactory import MessageFactory
        from sdc11073.pysoap.msgreader import MessageReader
        self.defs = d.SdcV1Definitions
        logger = loghelper.get_logger_adapter('sdc.verif')
        self.factory = MessageFactory(self.defs, [], logger, validate=True)
        self.reader = MessageReader(self.defs, [], logger, validate=True)
        self.mt = self.defs.data_model.msg_types

    def _finish(self, payload):
        from sdc11073.xml_types.addressing_types import HeaderInformationBlock
        payload.MdibVersion = 7
        payload.SequenceId = 'urn:uuid:00000000-0000-0000-0000-000000000001'
        inf = HeaderInformationBlock(action=payload.action, addr_to='http://127.0.0.1:10002/x')
        data = self.factory.mk_soap_message(inf, payload=payload).serialize()
        return self.reader.read_received_message(data)

    def response(self, tx, state):
        r = self.mt.SetStringResponse()
        r.InvocationInfo.TransactionId = tx
        r.InvocationInfo.InvocationState = self.mt.InvocationState(state)
        if state == 'Fail':
            r.InvocationInfo.InvocationError = self.mt.InvocationError.OTHER
        return self._finish(r)

    def report(self, tx, state):
        r = self.mt.OperationInvokedReport()
        part = r.add_report_part()
        part.InvocationInfo.TransactionId = tx
        part.InvocationInfo.InvocationState = self.mt.InvocationState(state)
        part.OperationHandleRef = 'DN_SET'
        part.OperationTarget = 'DN_METRIC'
        from sdc11073.xml_types import pm_types
        part.InvocationSource = pm_types.InstanceIdentifier(root='urn:verif', extension_string='x')
        return self._finish(r)


class _FakeClient:
    def __init__(self, msg):
        self._msg = msg

    def post_message(self, message, msg=None, request_manipulator=None, validate=True):
        return self._msg


def replay_consumer(kit, shapes, beh):
    from sdc11073.consumer.operations import OperationsManager
    mgr = OperationsManager(kit.reader, 'verif')
    futures, errors = {}, []
    events = []
    for ev in beh:
        t = ev['t']
        resp, reps, _direct = shapes[t]
        try:
            if ev['act'] == 'Report':
                mgr.on_operation_invoked_report(kit.report(100 + t, reps[ev['i'] - 1]))
            else:
                futures[t] = mgr.call_operation(_FakeClient(kit.response(100 + t, resp)), None)
        except Exception as ex:  # noqa: BLE001
            errors.append(f'{ev}: {type(ex).__name__}')
        events.append({'act': ev['act'], 't': t, 'i': ev.get('i', 0),
                       'done_after': sorted(x for x, f in futures.items() if f.done())})
    final = {}
    for t in shapes:
        f = futures.get(t)
        if f is None or not f.done():
            final[str(t)] = {'done': False, 'state': 'none', 'parts': []}
        else:
            r = f.result()
            final[str(t)] = {'done': True, 'state': r.InvocationInfo.InvocationState.value,
                             'parts': [p.InvocationInfo.InvocationState.value for p in r.report_parts]}
    return {'act': 'Consumer', 'events': events, 'final': final, 'errors': errors,
            'shapes': {str(t): {'resp': s[0], 'reps': s[1], 'direct': s[2]} for t, s in shapes.items()}}


# transactions whose response and reports really race (queued processing: the reports come from the provider's worker
# thread).  With direct processing the provider sends the report and waits for the consumer's answer before it
# responds (Invocation.tla: ResponseArrives is enabled only after the reports), nothing to interleave there.
_Q = lambda last: ('Wait', ['Wait', 'Start', last], False)   # noqa: E731
RACE_SHAPES = [{1: _Q('Fin')}, {1: _Q('Fail')}, {1: _Q('Fin'), 2: _Q('FinMod')}]
RACE_SHAPES_THOROUGH = [{1: _Q('Cnclld')}, {1: _Q('Fin'), 2: _Q('Fail'), 3: _Q('FinMod')}]


def consumer_race(run, kit):
    """The consumer's OperationsManager with its callers on REAL threads: the notification thread hands in the
    OperationInvokedReports of the transactions in order, one thread per transaction calls the operation (= receives
    the response).  All interleavings at the granularity of the manager's lock (Threads.tla; the code after a release
    is a step of its own) are executed; each execution yields the same kind of record as the sequential replay."""
    from sdc11073.consumer.operations import OperationsManager

    from verif.sched import Scheduler, TracedLock
    from verif.threads_engine import _SchedRef, enumerate_schedules

    def mk(shapes, ref):
        mgr = OperationsManager(kit.reader, 'verif')
        mgr._transactions_lock = TracedLock(mgr._transactions_lock, 'cons', ref)   # noqa: SLF001
        futures, errors = {}, []
        reports = [(t, i + 1, kit.report(100 + t, st)) for t, sh in sorted(shapes.items()) for i, st in enumerate(sh[1])]
        responses = {t: kit.response(100 + t, sh[0]) for t, sh in shapes.items()}

        def notifier():
            for t, i, msg in reports:
                try:
                    mgr.on_operation_invoked_report(msg)
                except Exception as ex:  # noqa: BLE001
                    errors.append(f'Report {t}/{i}: {type(ex).__name__}')

        def caller(t):
            def fn():
                try:
                    futures[t] = mgr.call_operation(_FakeClient(responses[t]), None)
                except Exception as ex:  # noqa: BLE001
                    errors.append(f'Response {t}: {type(ex).__name__}')
            return fn
        fns = {1: notifier}
        for k, t in enumerate(sorted(shapes)):
            fns[2 + k] = caller(t)
        return mgr, fns, futures, errors, reports

    out = []
    for si, shapes in enumerate(RACE_SHAPES if run.quick else RACE_SHAPES + RACE_SHAPES_THOROUGH):
        ref = _SchedRef(Scheduler(record_only=True))
        programs = {}
        for tid in range(1, 2 + len(shapes)):
            # each thread's program, recorded alone on a fresh manager
            _mgr, fns, _f, _e, _r = mk(shapes, ref)
            ref.s = Scheduler(record_only=True)
            ref.s.run_free(tid, fns[tid])
            programs[tid] = list(ref.s.programs[tid])
        run.note(f'consumer_thread_programs_{si}', {str(t): [f"{e['op']}:{e['lock']}" for e in p] for t, p in programs.items()})
        limit = None if len(shapes) == 1 else run.pick(150, 1500)
        scheds = enumerate_schedules(run, f'c09cons_{si}', programs, sorted(programs), limit=limit, seed=run.seed + si)
        run.count('consumer_thread_schedules', len(scheds))
        for sc in scheds:
            mgr, fns, futures, errors, reports = mk(shapes, ref)
            s = Scheduler()
            ref.s = s
            threads = {tid: s.spawn(tid, fn) for tid, fn in fns.items()}
            try:
                for tid in sc['sched']:
                    s.grant(tid)
                for tid in threads:
                    s.wait_parked_or_finished(tid)
                    if tid not in s.finished:
                        raise MachineryError(f'consumer thread {tid} still has events after the schedule ended')
            finally:
                with s.cv:
                    s.failed = s.failed or 'run over'
                    s.cv.notify_all()
            for th in threads.values():
                th.join(timeout=5)
            errors += [f'thread {t}: {e!r}'[:120] for t, e in sorted(getattr(s, 'errors', {}).items())]
            # the order in which the calls entered the manager's lock
            nrep, events = 0, []
            order = sorted(shapes)
            for tid, ev in s.events:
                if ev['op'] != 'acq':
                    continue
                if tid == 1:
                    t, i, _m = reports[min(nrep, len(reports) - 1)]
                    nrep += 1
                    events.append({'act': 'Report', 't': t, 'i': i, 'done_after': []})
                else:
                    events.append({'act': 'Response', 't': order[tid - 2], 'i': 0, 'done_after': []})
            final = {}
            for t in shapes:
                f = futures.get(t)
                if f is None or not f.done():
                    final[str(t)] = {'done': False, 'state': 'none', 'parts': []}
                else:
                    r = f.result()
                    final[str(t)] = {'done': True, 'state': r.InvocationInfo.InvocationState.value,
                                     'parts': [p.InvocationInfo.InvocationState.value for p in r.report_parts]}
            out.append([{'act': 'Init'},
                        {'act': 'Consumer', 'events': events, 'final': final, 'errors': errors, 'threads': True,
                         'schedule': list(sc['sched']),
                         'shapes': {str(t): {'resp': x[0], 'reps': x[1], 'direct': x[2]} for t, x in shapes.items()}}])
            run.distinct_traces.add(('cons-threads', si, tuple(sc['sched'])))
    return out


def concurrent_requests(run):
    """Transaction ids under concurrent requests: all interleavings (Threads.tla, lock granularity incl. the lock of the
    id counter) of two / three operation requests on real threads; judged by ThreadsTrace (transaction_ids_*)."""
    from verif.checks import c07
    scenarios = [('O_unknown_a', 'O_unknown_b'), ('O_unknown_a', 'O_unknown_b', 'O_unknown_c')]
    if not run.quick:
        scenarios.append(('O_setstring_a', 'O_unknown_b'))
    c07.run_scenarios(run, scenarios, run.pick(80, 600), {'transaction_ids_unique', 'transaction_ids_increase',
                                                          'request_answered'}, prefix='c09')


def check(run, replay_path=None):
    concurrent_requests(run)
    # ---- provider part
    res = run_tlc('InvocationMC', 'Invocation_prov.cfg', workers=1, timeout=600)
    run.add_tlc(res)
    pbehs = json_lines(res.stdout, 'BEH')
    if not pbehs:
        raise MachineryError('no provider behaviours')
    import random
    rnd = random.Random(run.seed)
    rnd.shuffle(pbehs)
    # an idle phase costs real time (the worker has to come round): few behaviours with exactly one idle phase that is
    # followed by a queued request, the rest without
    plain = [b for b in pbehs if all(r['idle'] == 'none' for r in b)]
    # (a third of the plain behaviours with a provider reboot + consumer restart between two requests)
    rebooted = [b for b in plain if any(r['reboot'] for r in b)]
    steady = [b for b in plain if not any(r['reboot'] for r in b)]
    n_plain = run.pick(52, 1080)
    plain = steady[:n_plain - n_plain // 3] + rebooted[:n_plain // 3]
    if not rebooted:
        raise MachineryError('provider behaviours: none with a reboot')
    idle = [b for b in pbehs if sum(r['idle'] != 'none' for r in b) == 1
            and any(r['idle'] != 'none' and i + 1 < len(b) + 1 and r['known'] and r['queued'] for i, r in enumerate(b))]
    n_idle = run.pick(8, 120)
    idle_r = [b for b in idle if any(r['idle'] == 'raises' for r in b)][:n_idle // 2]
    idle_q = [b for b in idle if any(r['idle'] == 'quiet' for r in b)][:n_idle // 2]
    if not plain or not idle_r or not idle_q:
        raise MachineryError('provider behaviours: missing a class of behaviours (plain / idle quiet / idle raises)')
    pbehs = idle_r + idle_q + plain
    run.note('provider_behaviours', {'plain': len(pbehs) - len(idle_r) - len(idle_q), 'idle_raises': len(idle_r),
                                     'idle_quiet': len(idle_q)})
    ptraces = []
    for i, beh in enumerate(pbehs):
        ses = ProviderSession(async_mgr=bool(i % 2), slow_request_thread=(i % 4 == 2))
        ses.n = i
        try:
            ptraces.append(ses.run(beh))
        finally:
            ses.close()
    # ---- consumer part
    kit = MessageKit()
    ctraces = []
    for name in run.pick(['Shapes1', 'Shapes2', 'Shapes3'], ['Shapes1', 'Shapes2', 'Shapes3', 'Shapes4']):
        cfg = f'Invocation_cons{name[-1]}.cfg'
        res = run_tlc('InvocationMC', cfg, workers=1, timeout=1800)
        run.add_tlc(res)
        cbehs = json_lines(res.stdout, 'BEH')
        if not cbehs:
            raise MachineryError(f'no consumer behaviours for {name}')
        if name == 'Shapes4':
            rnd.shuffle(cbehs)
            cbehs = cbehs[:3000]
        run.count('consumer_interleavings', len(cbehs))
        for beh in cbehs:
            ctraces.append([{'act': 'Init'}, replay_consumer(kit, SHAPES[name], beh)])
            run.distinct_traces.add((name, tuple((e['act'], e['t']) for e in beh)))
    ctraces += consumer_race(run, kit)
    traces = ptraces + ctraces
    rejects = tracecheck.validate(run, 'InvocationTrace', 'InvocationTrace.cfg', traces, chunk=2500)
    run.count('provider_requests', sum(len(t) - 1 for t in ptraces))
    for t in ptraces:
        run.distinct_traces.add(tuple((r.get('kind'), r.get('known'), r.get('queued'), r.get('outcome')) for r in t))
    run.sample(ptraces[0][1:3])
    run.sample(ctraces[0][1])
    for (ti, li, clause) in tracecheck.first_rejects(rejects):
        rec = traces[ti][li]
        if rec['act'] == 'Request':
            descr = {'check': 'invocation', 'part': 'provider', 'clause': clause, 'known': rec['known'],
                     'queued': rec['queued'], 'outcome': rec['outcome']}
            what = f'{clause}: {rec["kind"]} known={rec["known"]} queued={rec["queued"]} handler={rec["outcome"]}: ' \
                   f'response {rec["resp"]}, reports {[r["state"] for r in rec["reports"]]}'
        else:
            order = ' '.join(f"{e['act'][:4]}{e['t']}" for e in rec['events'])
            shapes = '|'.join(f"{s['resp']}:{'-'.join(s['reps'])}" for s in rec['shapes'].values())
            descr = {'check': 'invocation', 'part': 'consumer', 'clause': clause, 'shapes': shapes}
            what = f'{clause}: shapes {shapes} order {order} final {rec["final"]} errors {rec["errors"]}'
            if rec.get('threads'):
                descr['threads'] = True
                what += f' (real threads, schedule {rec["schedule"]})'
        if run.is_known(descr):
            continue
        run.violation(descr, what, {'trace': traces[ti], 'failing_record': li})
    run.assumptions += ['consumer part: the sequential replay of an interleaving takes the handlers of the OperationsManager as '
                        'atomic; that they are is checked by the executions on real threads (consumer_race) for one and two '
                        'transactions', 'provider part: handlers are scripted and do not touch the MDIB']
