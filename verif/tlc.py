"""Run TLC (model checking, simulation, trace validation) and parse what it printed."""
from __future__ import annotations

import json
import os
import re
import shutil
import subprocess
import tempfile
import time
from dataclasses import dataclass, field

JAR = '/opt/veriftools/tla/tla2tools.jar:/opt/veriftools/tla/CommunityModules-deps.jar'
SPEC_DIR = os.path.join(os.path.dirname(os.path.dirname(os.path.abspath(__file__))), 'specs')


class MachineryError(Exception):
    """Something in the verification machinery (not in the code under test) went wrong -> exit 2."""


@dataclass
class TlcResult:
    module: str
    cfg: str
    stdout: str
    returncode: int
    generated: int = 0
    distinct: int = 0
    wall_s: float = 0.0
    printed: list = field(default_factory=list)  # values printed with PrintT, as raw text lines
    coverage: dict = field(default_factory=dict)  # action name -> (distinct, total)
    ok: bool = False  # finished without invariant/property violation or error
    error_text: str = ''


_SUMMARY = re.compile(r'(\d+) states generated, (\d+) distinct states found')
_COV = re.compile(r'^<(\w+) line \d+, col \d+ to line \d+, col \d+ of module (\w+)>: (\d+):(\d+)', re.M)


def run_tlc(module: str, cfg: str, *, workers: int | str = 'auto', simulate: str | None = None,
            depth: int | None = None, seed: int | None = None, env: dict | None = None,
            timeout: int = 1800, coverage: bool = False, extra: list[str] | None = None,
            deadlock: bool = False, dfs_queue: bool = False, heap: str = '8g',
            expect_ok: bool = True) -> TlcResult:
    """Run TLC on specs/<module>.tla with specs/<cfg>; scratch goes to a temp dir that is removed."""
    meta = tempfile.mkdtemp(prefix='tlcmeta_')
    try:
        cmd = ['java', '-XX:+UseParallelGC', f'-Xmx{heap}']
        if dfs_queue:
            cmd.append('-Dtlc2.tool.queue.IStateQueue=StateDeque')
        cmd += ['-cp', JAR, 'tlc2.TLC', '-metadir', meta, '-noGenerateSpecTE',
                '-workers', str(workers), '-config', cfg]
        if not deadlock:
            cmd.append('-deadlock')  # TLC flag -deadlock == do NOT check deadlock
        if simulate is not None:
            cmd += ['-simulate', simulate]
        if depth is not None:
            cmd += ['-depth', str(depth)]
        if seed is not None:
            cmd += ['-seed', str(seed)]
        if coverage:
            cmd += ['-coverage', '1']
        if extra:
            cmd += extra
        cmd.append(module)
        full_env = dict(os.environ)
        full_env.pop('JAVA_TOOL_OPTIONS', None)
        if env:
            full_env.update({k: str(v) for k, v in env.items()})
        t0 = time.time()
        try:
            proc = subprocess.run(cmd, cwd=SPEC_DIR, env=full_env, capture_output=True, text=True,
                                  timeout=timeout, check=False)
        except subprocess.TimeoutExpired as ex:
            raise MachineryError(f'TLC timeout after {timeout}s: {module} {cfg}') from ex
        out = proc.stdout + proc.stderr
        res = TlcResult(module, cfg, out, proc.returncode, wall_s=time.time() - t0)
        for m in _SUMMARY.finditer(out):
            res.generated, res.distinct = int(m.group(1)), int(m.group(2))
        if simulate is not None and res.generated == 0:
            m = re.search(r'(\d+) states checked', out)
            if m:
                res.generated = res.distinct = int(m.group(1))
        for m in _COV.finditer(out):
            name = m.group(1)
            d, t = int(m.group(3)), int(m.group(4))
            od, ot = res.coverage.get(name, (0, 0))
            res.coverage[name] = (od + d, ot + t)
        res.ok = proc.returncode == 0 and 'Error:' not in out
        if not res.ok:
            idx = out.find('Error:')
            res.error_text = out[idx: idx + 3000] if idx >= 0 else out[-3000:]
        if expect_ok and not res.ok:
            raise MachineryError(f'TLC failed on {module}/{cfg} (rc={proc.returncode}):\n{res.error_text}')
        return res
    finally:
        shutil.rmtree(meta, ignore_errors=True)
        # TLC drops <module>_TTrace / states dirs next to the spec in some modes
        for name in os.listdir(SPEC_DIR):
            if name.endswith('.bin') or '_TTrace_' in name or name == 'states':
                p = os.path.join(SPEC_DIR, name)
                shutil.rmtree(p, ignore_errors=True) if os.path.isdir(p) else os.remove(p)


def tla_to_py(text: str):
    """Parse a TLA+ value printed by TLC (records, sequences, sets, functions, strings, ints, booleans)."""
    pos = 0
    n = len(text)

    def ws():
        nonlocal pos
        while pos < n and text[pos] in ' \t\r\n':
            pos += 1

    def value():
        nonlocal pos
        ws()
        if text.startswith('<<', pos):
            pos += 2
            items = seq('>>')
            return items
        if text[pos] == '{':
            pos += 1
            items = seq('}')
            return {'__set__': items}
        if text[pos] == '[':
            pos += 1
            ws()
            if text[pos] == ']':
                pos += 1
                return {}
            rec = {}
            while True:
                ws()
                # record: name |-> v ; function printed as (k :> v @@ ...) handled below
                m = re.compile(r'\w+').match(text, pos)
                name = m.group(0)
                pos = m.end()
                ws()
                assert text.startswith('|->', pos), text[pos:pos + 20]
                pos += 3
                rec[name] = value()
                ws()
                if text[pos] == ',':
                    pos += 1
                    continue
                assert text[pos] == ']', text[pos:pos + 20]
                pos += 1
                return rec
        if text[pos] == '(':
            pos += 1
            fn = {}
            while True:
                k = value()
                ws()
                assert text.startswith(':>', pos)
                pos += 2
                v = value()
                fn[k if isinstance(k, (str, int)) else json.dumps(k)] = v
                ws()
                if text.startswith('@@', pos):
                    pos += 2
                    continue
                assert text[pos] == ')', text[pos:pos + 20]
                pos += 1
                return fn
        if text[pos] == '"':
            end = pos + 1
            buf = []
            while text[end] != '"':
                if text[end] == '\\':
                    end += 1
                buf.append(text[end])
                end += 1
            pos = end + 1
            return ''.join(buf)
        m = re.compile(r'-?\d+').match(text, pos)
        if m:
            pos = m.end()
            return int(m.group(0))
        m = re.compile(r'\w+').match(text, pos)
        if m:
            pos = m.end()
            w = m.group(0)
            return {'TRUE': True, 'FALSE': False}.get(w, w)
        raise ValueError(f'cannot parse TLA+ value at {pos}: {text[pos:pos + 40]!r}')

    def seq(close):
        nonlocal pos
        items = []
        ws()
        if text.startswith(close, pos):
            pos += len(close)
            return items
        while True:
            items.append(value())
            ws()
            if text[pos] == ',':
                pos += 1
                continue
            assert text.startswith(close, pos), text[pos:pos + 20]
            pos += len(close)
            return items

    v = value()
    return v


def printed_values(stdout: str, tag: str) -> list:
    """Return python values of all TLC PrintT lines of the form <<"tag", ...>> (single-line)."""
    out = []
    prefix = f'<<"{tag}"'
    for line in stdout.splitlines():
        line = line.strip()
        if line.startswith(prefix):
            out.append(tla_to_py(line))
    return out


def json_lines(stdout: str, tag: str) -> list:
    """Return parsed JSON payloads of PrintT(<<"tag", ToJson(x)>>) lines."""
    out = []
    prefix = f'<<"{tag}", "'
    for line in stdout.splitlines():
        line = line.strip()
        if line.startswith(prefix) and line.endswith('">>'):
            payload = line[len(prefix):-3]
            payload = payload.encode('utf-8').decode('unicode_escape') if '\\' in payload else payload
            out.append(json.loads(payload))
    return out
