"""Engine shared by C07 and the order part of C04: record thread programs of real operations, let TLC enumerate
all interleavings (specs/Threads.tla), execute every schedule on the real threads, record what happened."""
from __future__ import annotations

import json
import os

from .mdibharness import Projector, apply_tok, content
from .mirrorharness import install_clock
from .pair import Pair
from .sched import Scheduler, trace_provider_mdib, trace_provider_txid
from .tlc import SPEC_DIR, MachineryError, json_lines, run_tlc

HANDLES = ['vmd', 'ch', 'm1', 'm2', 'pc', 'dA', 'rt', 'al', 'op']
CTX = ['c1', 'c2']


class Lab:
    """One provider/consumer pair whose provider MDIB is traced; runs scenarios (sets of operations as threads)."""

    def __init__(self, **pair_kw):
        install_clock()
        self.pair = Pair(**pair_kw)
        self.mdib = self.pair.mdib
        self.sched = Scheduler(record_only=True)
        self.ref = _SchedRef(self.sched)
        trace_provider_mdib(self.mdib, self.ref)
        trace_provider_txid(self.pair.provider, self.ref)
        self.txids = []
        self.proj = Projector(HANDLES, CTX)
        self.tok_n = 0
        # traced point for "notification put on the wire"
        net = self.pair.net
        net.on_post = self._on_post
        self.wire = []
        # a context state to play with
        with self.mdib.context_state_transaction() as mgr:
            st = mgr.mk_context_state(self.proj.map_d['pc'], self.proj.map_c['c1'], set_associated=True)
            apply_tok(st, 0)
        self._kept_entity = self.mdib.entities.by_handle(self.proj.map_d['pc'])   # kept by the 'application'

    def _on_post(self, wire):
        if wire.src == 'provider':
            self.ref.point('send')
            # the MdibVersion the notification is labelled with
            import re
            mt = re.search(rb'MdibVersion="(\d+)"', wire.data)
            self.wire.append(int(mt.group(1)) if mt else self.mdib.mdib_version)
        return None

    # ------------------------------------------------------------------ operations
    def op(self, name):
        m, proj = self.mdib, self.proj
        get = self.pair.consumer.get_service_client
        ctxc = self.pair.consumer.context_service_client
        reads = self.reads

        def conc(a):
            return proj.map_d[a]

        def w_metric(a):
            def fn():
                self.tok_n += 1
                with m.metric_state_transaction() as mgr:
                    apply_tok(mgr.get_state(conc(a)), self.tok_n)
            return fn

        def w_rt(a):
            def fn():
                self.tok_n += 1
                with m.rt_sample_state_transaction() as mgr:
                    apply_tok(mgr.get_state(conc(a)), self.tok_n)
            return fn

        def w_comp(a):
            def fn():
                self.tok_n += 1
                with m.component_state_transaction() as mgr:
                    apply_tok(mgr.get_state(conc(a)), self.tok_n)
            return fn

        def w_alert(a):
            def fn():
                self.tok_n += 1
                with m.alert_state_transaction() as mgr:
                    apply_tok(mgr.get_state(conc(a)), self.tok_n)
            return fn

        def w_op(a):
            def fn():
                self.tok_n += 1
                with m.operational_state_transaction() as mgr:
                    apply_tok(mgr.get_state(conc(a)), self.tok_n)
            return fn

        def w_descr(a):
            def fn():
                self.tok_n += 1
                with m.descriptor_transaction() as mgr:
                    apply_tok(mgr.get_descriptor(conc(a)), self.tok_n)
            return fn

        def w_ctx():
            def fn():
                self.tok_n += 1
                with m.context_state_transaction() as mgr:
                    apply_tok(mgr.get_context_state(proj.map_c['c1']), self.tok_n)
            return fn

        def r_state(handles, label):
            def fn():
                res = get.get_md_state([conc(h) for h in handles] if handles is not None else None)
                reads.append(self._read_record(label, handles, res.mdib_version_group, states=res.result.MdState.State))
            return fn

        def r_mdib():
            def fn():
                res = get.get_mdib()
                descrs, states = res.result
                reads.append(self._read_record('GetMdib', None, res.mdib_version_group, states=states, descrs=descrs))
            return fn

        def r_descr():
            def fn():
                res = get.get_md_description([])
                node = res.p_msg.msg_node
                mdd = [n for n in node if n.tag.endswith('MdDescription')][0]
                descrs = self.pair.consumer.msg_reader._read_md_description_node(mdd)  # noqa: SLF001
                reads.append(self._read_record('GetMdDescription', None, res.mdib_version_group, descrs=descrs))
            return fn

        def r_descr_of(handles):
            def fn():
                res = get.get_md_description([conc(h) for h in handles])
                node = res.p_msg.msg_node
                mdd = [n for n in node if n.tag.endswith('MdDescription')][0]
                descrs = self.pair.consumer.msg_reader._read_md_description_node(mdd)  # noqa: SLF001
                reads.append(self._read_record('GetMdDescription[req]', handles, res.mdib_version_group, descrs=descrs))
            return fn

        def w_add(a, parent):
            def fn():
                from .mdibharness import make_descriptor
                with m.descriptor_transaction() as mgr:
                    d = make_descriptor(m, a, conc(parent))
                    mgr.add_descriptor(d, state_container=m.data_model.mk_state_container(d))
            return fn

        def w_del(a):
            def fn():
                with m.descriptor_transaction() as mgr:
                    mgr.remove_descriptor(conc(a))
            return fn

        def o_unknown(tag):
            # an operation request for a handle that is no operation: answered with Fail, consumes a transaction id
            def fn():
                fut = self.pair.consumer.set_service_client.set_string(f'no_such_operation_{tag}', 'x')
                res = fut.result(timeout=5)
                self.txids.append(int(res.InvocationInfo.TransactionId))
            return fn

        def o_setstring(value):
            def fn():
                fut = self.pair.consumer.set_service_client.set_string('DN_SET', value)
                res = fut.result(timeout=5)
                self.txids.append(int(res.InvocationInfo.TransactionId))
            return fn

        def p_periodic():
            # one round of the retrievability-driven periodic report loop (PeriodicReportsHandler._periodic_reports_send_loop
            # itself; only its waiting is taken away); what it sends is read back from the wire as a "read"
            def fn():
                import types

                import sdc11073.provider.periodicreports as pr
                h = pr.PeriodicReportsHandler(m, self.pair.provider.hosted_services)

                class Once:
                    def __init__(self):
                        self.n = 0

                    def __bool__(self):
                        self.n += 1
                        return self.n == 1
                h._run_periodic_reports_thread = Once()   # noqa: SLF001
                old_time, old_wait, old_rem = pr.time, pr.intervaltimer.IntervalTimer.wait_next_interval_begin, \
                    pr.intervaltimer.IntervalTimer.remaining_time
                saved = dict(m.retrievability_periodic)
                m.retrievability_periodic.clear()
                m.retrievability_periodic[100] = [conc('pc'), conc('m1'), conc('vmd'), conc('al'), conc('op')]
                pr.time = types.SimpleNamespace(sleep=lambda s: None, time=old_time.time, monotonic=old_time.monotonic)
                pr.intervaltimer.IntervalTimer.wait_next_interval_begin = lambda self_: None
                pr.intervaltimer.IntervalTimer.remaining_time = lambda self_: 0
                pos = len(self.pair.net.log)
                try:
                    import contextlib
                    import io
                    with contextlib.redirect_stdout(io.StringIO()):    # (the loop prints a debug line)
                        h._periodic_reports_send_loop()   # noqa: SLF001
                finally:
                    pr.time = old_time
                    pr.intervaltimer.IntervalTimer.wait_next_interval_begin = old_wait
                    pr.intervaltimer.IntervalTimer.remaining_time = old_rem
                    m.retrievability_periodic.clear()
                    m.retrievability_periodic.update(saved)
                mt = m.data_model.msg_types
                reader = self.pair.consumer.msg_reader
                for w in self.pair.net.log[pos:]:
                    if w.src != 'provider':
                        continue
                    for name, cls in (('PeriodicContextReport', mt.PeriodicContextReport),
                                      ('PeriodicMetricReport', mt.PeriodicMetricReport),
                                      ('PeriodicAlertReport', mt.PeriodicAlertReport),
                                      ('PeriodicComponentReport', mt.PeriodicComponentReport),
                                      ('PeriodicOperationalStateReport', mt.PeriodicOperationalStateReport)):
                        if name.encode() in w.data:
                            md = reader.read_received_message(w.data)
                            rep = cls.from_node(md.p_msg.msg_node)
                            states = [st for part in rep.ReportPart for st in part.values_list]
                            vg = types.SimpleNamespace(mdib_version=rep.MdibVersion)
                            reads.append(self._read_record(name, None, vg, states=states))
            return fn

        def l_setloc(tag):
            # a location change through the provider API (ProviderMdibMethods.set_location + publishing the new scope)
            def fn():
                from sdc11073.location import SdcLocation
                self.tok_n += 1    # (a location equal to the present one is ignored by the provider)
                self.pair.provider.set_location(SdcLocation(fac='fac', poc='poc', bed=f'bed_{tag}_{self.tok_n}'))
            return fn

        def w_ctx_newloc():
            # application code that does by hand what a location change does: everything inside one context transaction
            def fn():
                self.tok_n += 1
                with m.context_state_transaction() as mgr:
                    mgr.disassociate_all(conc('lc'))
                    st = mgr.mk_context_state(conc('lc'), set_associated=True)
                    from sdc11073.location import SdcLocation
                    st.update_from_sdc_location(SdcLocation(fac='fac', poc='poc', bed=f'bed_w_{self.tok_n}'))
            return fn

        def w_ctx_newpat():
            def fn():
                self.tok_n += 1
                with m.context_state_transaction() as mgr:
                    mgr.disassociate_all(conc('pc'))
                    apply_tok(mgr.mk_context_state(conc('pc'), set_associated=True), self.tok_n)
            return fn

        def a_entity_touch():
            # application code that keeps a context entity, refreshes it and prepares changes on it WITHOUT committing
            def fn():
                self.tok_n += 1
                ent = self.__dict__.get('_kept_entity')
                if ent is None:
                    ent = self._kept_entity = m.entities.by_handle(conc('pc'))
                ent.update()
                apply_tok(ent.descriptor, self.tok_n)
                for st in ent.states.values():
                    apply_tok(st, self.tok_n)
                    st.ContextAssociation = m.data_model.pm_types.ContextAssociation.DISASSOCIATED
            return fn

        def r_ctx(handles):
            def fn():
                hs = None if handles is None else [proj.map_c.get(h) or conc(h) for h in handles]
                res = ctxc.get_context_states(hs)
                reads.append(self._read_record('GetContextStates', handles, res.mdib_version_group,
                                               states=res.result.ContextState))
            return fn

        table = {
            'W_metric_m1': w_metric('m1'), 'W_metric_m2': w_metric('m2'), 'W_comp_vmd': w_comp('vmd'),
            'W_alert_al': w_alert('al'), 'W_op_op': w_op('op'),
            'W_descr_m1': w_descr('m1'), 'W_descr_pc': w_descr('pc'), 'W_descr_ch': w_descr('ch'), 'W_ctx': w_ctx(),
            'R_state_m1': r_state(['m1'], 'GetMdState[m1]'), 'R_state_all': r_state(None, 'GetMdState[]'),
            'R_mdib': r_mdib(), 'R_descr': r_descr(), 'R_ctx_all': r_ctx(None), 'R_ctx_pc': r_ctx(['pc']),
            'O_unknown_a': o_unknown('a'), 'O_unknown_b': o_unknown('b'), 'O_unknown_c': o_unknown('c'),
            'O_setstring_a': o_setstring('va'), 'O_setstring_b': o_setstring('vb'),
            'P_periodic': p_periodic(),
            'W_rt': w_rt('rt'), 'R_state_rt': r_state(['rt'], 'GetMdState[req]'),
            'L_setloc_a': l_setloc('a'), 'L_setloc_b': l_setloc('b'), 'W_ctx_newloc': w_ctx_newloc(),
            'W_ctx_newpat': w_ctx_newpat(), 'A_entity_touch': a_entity_touch(),
            'R_descr_dA': r_descr_of(['dA']), 'W_add_dA': w_add('dA', 'vmd'), 'W_del_dA': w_del('dA'),
        }
        return table[name]

    def _read_record(self, kind, requested, vg, states=(), descrs=None):
        inv_c = {c: a for a, c in self.proj.map_c.items()}
        entries = []
        for st in states:
            if st.is_context_state:
                a = inv_c.get(st.Handle)
                if a in self.proj.ctx_handles:
                    entries.append({'k': 'C', 'h': a, 'ver': st.StateVersion, 'dver': st.DescriptorVersion,
                                    'tok': self.proj.tokens.tok(content(st))})
            else:
                a = self.proj.abstract_d(st.DescriptorHandle)
                if a != 'ext':
                    entries.append({'k': 'S', 'h': a, 'ver': st.StateVersion, 'dver': st.DescriptorVersion,
                                    'tok': self.proj.tokens.tok(content(st))})
        for d in (descrs or []):
            a = self.proj.abstract_d(d.Handle)
            if a != 'ext':
                entries.append({'k': 'D', 'h': a, 'ver': d.DescriptorVersion, 'dver': 0,
                                'tok': self.proj.tokens.tok(content(d))})
        return {'kind': kind, 'requested': requested if requested is not None else ['*'],
                'label': vg.mdib_version, 'entries': entries,
                'has_states': bool(states) or kind.startswith('GetMdState') or kind in ('GetMdib', 'GetContextStates'),
                'has_descrs': descrs is not None}

    def _ctx_snapshot(self):
        """All context states of the real MDIB (whatever their handles): association and binding marks, per descriptor."""
        names = self.__dict__.setdefault('_ctx_names', {})
        out = {}
        for st in sorted(self.mdib.context_states.objects, key=lambda x: (x.BindingMdibVersion or 0, x.Handle)):
            n = names.setdefault(st.Handle, 's%d' % len(names))
            out[n] = {'d': st.DescriptorHandle, 'assoc': st.ContextAssociation.value if st.ContextAssociation else 'No',
                      'bind': -1 if st.BindingMdibVersion is None else st.BindingMdibVersion,
                      'unbind': -1 if st.UnbindingMdibVersion is None else st.UnbindingMdibVersion,
                      'start': st.BindingStartTime is not None, 'end': st.BindingEndTime is not None}
        return {'st': out}

    # ------------------------------------------------------------------ recording of programs
    def record_program(self, name):
        self.reads = []
        s = Scheduler(record_only=True)
        self.ref.s = s
        s.run_free(1, self.op(name))
        prog = [e for e in s.programs[1]]
        return prog

    # ------------------------------------------------------------------ scheduled execution
    def run_free(self, name):
        """Run one operation unscheduled (set-up / clean-up between schedules)."""
        self.reads = []
        s = Scheduler(record_only=True)
        self.ref.s = s
        s.run_free(1, self.op(name))

    def execute(self, names, schedule, pre=(), post=()):
        """Run the operations `names` as threads 1..n under `schedule` (list of thread ids). Return the record.
        `pre` / `post` operations run unscheduled before / after (they bring the MDIB into / back from the start state)."""
        for name in pre:
            self.run_free(name)
        try:
            return self._execute(names, schedule)
        finally:
            for name in post:
                try:
                    self.run_free(name)
                except Exception:  # noqa: BLE001  the scheduled run already removed / created it
                    pass

    def _execute(self, names, schedule):
        self.reads = []
        self.wire = []
        self.txids = []
        txid0 = self.pair.provider._transaction_id   # noqa: SLF001
        s = Scheduler()
        self.ref.s = s
        threads = {i + 1: s.spawn(i + 1, self.op(n)) for i, n in enumerate(names)}
        phist = {}
        ctxhist = {}
        depth = 0
        mver0 = self.mdib.mdib_version
        writes0 = self.mdib._verif_store['writes']   # noqa: SLF001

        conflicts = []
        sigs = {}

        def snap():
            p = self.proj.project(self.mdib)
            entry = {k: p[k] for k in ('D', 'S', 'C', 'mver')}
            sig = (entry, p['rest'])            # 'rest': digest of everything outside the projected universe
            old = sigs.setdefault(str(p['mver']), sig)
            if old != sig and p['mver'] not in conflicts:
                conflicts.append(p['mver'])     # the MDIB changed although MdibVersion did not
            phist.setdefault(str(p['mver']), entry)
            ctxhist[str(p['mver'])] = self._ctx_snapshot()
        snap()
        try:
            for tid in schedule:
                ev = s.grant(tid)
                if ev['lock'] == 'mdib' and ev['op'] in ('acq', 'rel'):
                    depth += 1 if ev['op'] == 'acq' else -1
                if depth == 0:
                    snap()
            for tid in threads:
                s.wait_parked_or_finished(tid)
                if tid not in s.finished and tid not in getattr(s, 'errors', {}):
                    raise MachineryError(f'thread {tid} still has events after the schedule ended: stale program')
        finally:
            with s.cv:
                s.failed = s.failed or 'run over'
                s.cv.notify_all()
        for th in threads.values():
            th.join(timeout=5)
        errs = [f'{names[t - 1]}: {e!r}'[:200] for t, e in sorted(getattr(s, 'errors', {}).items())]
        executed = [[t, e['op'], e['lock']] for t, e in s.events]
        snap()
        vers = sorted(int(k) for k in ctxhist)
        return {'conflicts': conflicts, 'mver0': mver0, 'mver_end': self.mdib.mdib_version, 'nwv': self.mdib._verif_store['writes'] - writes0,
                'ctxhist': [dict(ctxhist[str(v)], v=v) for v in vers],
                'ops': list(names), 'schedule': list(schedule), 'reads': list(self.reads), 'phist': phist,
                'wire': list(self.wire), 'executed': executed, 'errors': errs, 'txids': list(self.txids), 'txid0': txid0}

    def close(self):
        self.ref.s = Scheduler(record_only=True)
        self.pair.net.on_post = None
        self.pair.stop()


class _SchedRef:
    """Indirection so that the traced locks of one MDIB can be used with a fresh Scheduler per run."""

    def __init__(self, s):
        self.s = s

    def point(self, op, lock='none'):
        return self.s.point(op, lock)


def tla_prog(programs: dict[int, list[dict]]) -> str:
    def ev(e):
        return f'[op |-> "{e["op"]}", lock |-> "{e["lock"]}"]'
    items = [f'{t} :> <<{", ".join(ev(e) for e in prog)}>>' for t, prog in sorted(programs.items())]
    return ' @@ '.join(items)


def enumerate_schedules(run, tag, programs, readers, limit=None, seed=0):
    """TLC: all interleavings of the recorded programs the lock semantics allow (optionally a random sample)."""
    mod = f'_gen_Threads_{tag}'
    rd = '{' + ', '.join(str(r) for r in readers) + '}'
    with open(os.path.join(SPEC_DIR, mod + '.tla'), 'w') as f:
        f.write(f'---- MODULE {mod} ----\nEXTENDS Threads\nGenProg == {tla_prog(programs)}\nGenReaders == {rd}\n====\n')
    with open(os.path.join(SPEC_DIR, mod + '.cfg'), 'w') as f:
        f.write('SPECIFICATION Spec\nCONSTANTS\n  Prog <- GenProg\n  Readers <- GenReaders\nCONSTRAINT Emit\n')
    try:
        if limit is None:
            res = run_tlc(mod, mod + '.cfg', workers=1, timeout=1800)
        else:
            depth = sum(len(p) for p in programs.values()) + 1
            res = run_tlc(mod, mod + '.cfg', workers=1, simulate=f'num={limit}', depth=depth, seed=seed, timeout=1800)
    finally:
        for ext in ('.tla', '.cfg'):
            os.remove(os.path.join(SPEC_DIR, mod + ext))
    run.add_tlc(res)
    scheds = json_lines(res.stdout, 'SCHED')
    seen, out = set(), []
    for s in scheds:
        key = tuple(s['sched'])
        if key not in seen:
            seen.add(key)
            out.append(s)
    return out
