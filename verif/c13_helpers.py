"""Harness parts of check C13 (request handling is total).

 * build(): a real provider + real consumer (verif.pair.Pair) with spies on the stages of the request pipeline
 * Templates: one valid request per request type, captured from the wire log of a real session
 * concretise(): abstract request (record of classes printed by TLC) -> bytes on the wire
 * Executor: runs one concretisation (a) through the real DispatchingRequestHandler on an in-memory socket whose
   read side counts calls (spin is observed as exception `Spin`) or (b) through MessageConverterMiddleware.do_post,
   always in a worker thread with a hard timeout, under a socket guard and an lxml resolver spy, and records the
   outcome.
"""
from __future__ import annotations

import copy
import gzip
import http.client
import io
import os
import queue
import random
import re
import socket
import threading
import time
import types
import uuid as _uuid
import zlib
from decimal import Decimal

from lxml import etree

from .tlc import MachineryError

S12 = 'http://www.w3.org/2003/05/soap-envelope'
WSA = 'http://www.w3.org/2005/08/addressing'
WSE = 'http://schemas.xmlsoap.org/ws/2004/08/eventing'
MSG = 'http://standards.ieee.org/downloads/11073/11073-10207-2017/message'
NS = {'s12': S12, 'wsa': WSA, 'wse': WSE, 'msg': MSG}

MARK_INT = 'XXEINTERNALMARKER'
MARK_FILE = 'XXEFILEMARKER'
SECRET_FILE = os.path.join(os.path.dirname(os.path.dirname(os.path.abspath(__file__))), 'fixtures', 'c13',
                           'secret.txt')
DEAD_URL = 'http://127.0.0.1:9/c13.dtd'

P_PREFIX = _uuid.UUID(int=1).hex
C_PREFIX = _uuid.UUID(int=2).hex


# ------------------------------------------------------------------------------------------------ watchdogs
class Spin(BaseException):
    """The code under test keeps reading a stream that is at EOF (BaseException: no `except Exception` eats it)."""


class SpyIO(io.BytesIO):
    """Read side of the in-memory connection: counts calls, notes unbounded reads, raises Spin on a spin."""

    EOF_LIMIT = 40

    def __init__(self, data: bytes):
        super().__init__(data)
        self.calls = 0
        self.eof_reads = 0
        self.unbounded = []
        self.budget = 8 * len(data) + 2000

    def _tick(self, kind, size, got):
        self.calls += 1
        if not got and size != 0:
            self.eof_reads += 1
        elif got:
            self.eof_reads = 0
        if self.eof_reads > self.EOF_LIMIT or self.calls > self.budget:
            raise Spin(f'{kind}: {self.calls} calls, {self.eof_reads} consecutive reads at EOF')

    def read(self, size=-1):
        if size is None or size < 0:
            self.unbounded.append(('read', size))
        got = super().read(size)
        self._tick('read', size, got)
        return got

    def read1(self, size=-1):
        if size is None or size < 0:
            self.unbounded.append(('read1', size))
        got = super().read1(size)
        self._tick('read1', size, got)
        return got

    def readinto(self, b):
        got = super().readinto(b)
        self._tick('readinto', len(b), got)
        return got

    def readline(self, size=-1):
        if size is None or size < 0:
            self.unbounded.append(('readline', size))
        got = super().readline(size)
        self._tick('readline', size, got)
        return got


class FakeSock:
    """What socketserver hands to a StreamRequestHandler, backed by memory."""

    def __init__(self, data: bytes):
        self.rfile = SpyIO(data)
        self.out = bytearray()

    def makefile(self, mode, *a, **kw):  # noqa: ARG002
        if 'r' not in mode:
            raise AssertionError('unexpected makefile mode ' + mode)
        return self.rfile

    def sendall(self, data):
        self.out += data

    def getpeername(self):
        return ('127.0.0.1', 40000)

    def settimeout(self, t):
        pass

    def setsockopt(self, *a):
        pass

    def shutdown(self, *a):
        pass

    def close(self):
        pass


class NullLogger:
    def __getattr__(self, name):
        return lambda *a, **kw: None


class SocketGuard:
    """While active, any attempt to create or connect a socket is recorded and refused."""

    def __init__(self):
        self.attempts = []
        self._saved = None

    def __enter__(self):
        guard = self
        real_socket = socket.socket

        class GuardedSocket(real_socket):
            def __init__(self, *a, **kw):
                guard.attempts.append(('socket', repr(a)))
                raise OSError('C13 socket guard: no network access during request handling')

        def refuse(name):
            def fn(*a, **kw):
                guard.attempts.append((name, repr(a)[:200]))
                raise OSError(f'C13 socket guard: {name} refused')
            return fn

        self._saved = (socket.socket, socket.create_connection, socket.getaddrinfo)
        socket.socket = GuardedSocket
        socket.create_connection = refuse('create_connection')
        socket.getaddrinfo = refuse('getaddrinfo')
        return self

    def __exit__(self, *exc):
        socket.socket, socket.create_connection, socket.getaddrinfo = self._saved
        return False


class _ResolverSpy(etree.Resolver):
    def __init__(self, calls):
        super().__init__()
        self.calls = calls

    def resolve(self, system_url, public_id, context):  # noqa: ARG002
        self.calls.append(str(system_url))
        return None  # default handling goes on (and is what we want to observe)


class EtreeProxy:
    """Stands in for the module global `etree` of sdc11073.pysoap.msgreader: every parser gets a resolver spy."""

    def __init__(self, real, calls):
        self._real = real
        self._calls = calls

    def __getattr__(self, name):
        return getattr(self._real, name)

    def ETCompatXMLParser(self, *a, **kw):  # noqa: N802
        parser = self._real.ETCompatXMLParser(*a, **kw)
        parser.resolvers.add(_ResolverSpy(self._calls))
        return parser

    def XMLParser(self, *a, **kw):  # noqa: N802
        parser = self._real.XMLParser(*a, **kw)
        parser.resolvers.add(_ResolverSpy(self._calls))
        return parser


RESOLVER_CALLS: list = []


def install_resolver_spy():
    from sdc11073.pysoap import msgreader
    if not isinstance(msgreader.etree, EtreeProxy):
        msgreader.etree = EtreeProxy(msgreader.etree, RESOLVER_CALLS)


class _DetUuid:
    """Module stand-in for `uuid` in the provider's subscription manager: reproducible subscription identifiers."""

    def __init__(self):
        self.counter = 0

    def __getattr__(self, name):
        return getattr(_uuid, name)

    def uuid4(self):
        self.counter += 1
        return _uuid.UUID(int=(0xC13 << 96) + self.counter)


DET_UUID = _DetUuid()


class TrackedQueue(queue.Queue):
    """queue.Queue that knows whether its consumer is between get() and the next get() (busy)."""

    busy = False

    def get(self, block=True, timeout=None):
        with self.mutex:
            self.busy = False
        return super().get(block, timeout)

    def _get(self):
        self.busy = True
        return super()._get()

    def idle(self):
        with self.mutex:
            return not self.busy and not self.queue


# ------------------------------------------------------------------------------------------------ the system
class System:
    """A real provider + consumer pair with stage spies."""

    serial = 0

    def __init__(self, deferred=False, validate=True):
        from sdc11073.provider import subscriptionmgr_base
        from verif.mdibharness import Projector
        from verif.pair import Pair
        subscriptionmgr_base.uuid = DET_UUID
        DET_UUID.counter = 0
        install_resolver_spy()
        self.deferred = deferred
        self.pair = Pair(deferred_dispatch=deferred, validate=validate)
        # identifiers of subscriptions made later are unique over all systems of this process
        System.serial += 1
        DET_UUID.counter = System.serial * 1000000
        self.events: list = []       # stage events of the request in flight
        self.parsed: list = []       # ReceivedMessage objects of the request in flight
        self.projector = Projector([], [])
        pair = self.pair
        # no asynchronous removal of subscriptions while requests are judged
        for mgr in pair.provider._subscriptions_managers.values():  # noqa: SLF001
            mgr._run_housekeeping_thread = False  # noqa: SLF001
        # no autonomous device activity either (the tutorial role provider re-checks alert systems every second)
        for product in pair.provider.product_lookup.values():
            for role in getattr(product, '_ordered_role_providers', []):
                if hasattr(role, '_stop_worker'):
                    role._stop_worker.set()  # noqa: SLF001
        self._spy_reader(pair.provider.msg_reader, 'provider')
        self._spy_reader(pair.consumer.msg_reader, 'consumer')
        for inst in pair.provider._hosted_service_dispatcher._instances.values():  # noqa: SLF001
            self._spy_handlers(inst)
        self._spy_handlers(pair.consumer._services_dispatcher)  # noqa: SLF001
        self.sco_queues = []
        for reg in pair.provider._sco_operations_registries.values():  # noqa: SLF001
            worker = getattr(reg, '_worker', None)
            if worker is None:
                raise MachineryError('sco registry without worker: cannot quiesce operations')
            # no autonomous follow-up of an accepted operation while later requests are judged (the tutorial role
            # provider reverts a delegated alert signal InvocationEffectiveTimeout seconds after SetAlertState)
            reg.check_invocation_timeouts = lambda: None
            q = worker._operations_queue  # noqa: SLF001
            q.__class__ = TrackedQueue
            self.sco_queues.append(q)
        self.servers = {
            'provider': types.SimpleNamespace(dispatcher=pair.pserver.dispatcher, supported_encodings=['gzip'],
                                              chunk_size=0, logger=NullLogger()),
            'consumer': types.SimpleNamespace(dispatcher=pair.cserver.dispatcher, supported_encodings=['gzip'],
                                              chunk_size=0, logger=NullLogger()),
        }
        self.converters = {
            'provider': pair.pserver.dispatcher.get_instance(P_PREFIX),
            'consumer': pair.cserver.dispatcher.get_instance(C_PREFIX),
        }
        self.accepted_mutations = 0
        self.dirty = False

    def _spy_reader(self, reader, who):
        orig = reader.read_received_message
        sysm = self

        def read_received_message(xml_text, validate=True):
            sysm.events.append('parse_begin')
            try:
                msg = orig(xml_text, validate=validate)
            except BaseException as ex:
                sysm.events.append('parse_fail:' + type(ex).__name__)
                raise
            sysm.events.append('validated' if validate and reader._validate else 'parsed_unvalidated')  # noqa: SLF001
            sysm.parsed.append(msg)
            return msg

        reader.read_received_message = read_received_message

    def _spy_handlers(self, dispatcher):
        sysm = self

        def wrap(fn):
            def handler(*a, **kw):
                sysm.events.append('handled')
                return fn(*a, **kw)
            handler.__name__ = getattr(fn, '__name__', 'handler')
            return handler

        for key, fn in list(dispatcher._post_handlers.items()):  # noqa: SLF001
            dispatcher._post_handlers[key] = wrap(fn)  # noqa: SLF001
        for key, fn in list(dispatcher._get_handlers.items()):  # noqa: SLF001
            dispatcher._get_handlers[key] = wrap(fn)  # noqa: SLF001

    # -- quiescence
    def quiesce(self, timeout=20.0):
        """Wait until no operation is queued or executing and the consumer's deferred queue is drained."""
        end = time.time() + timeout
        while True:
            if all(q.idle() for q in self.sco_queues):
                break
            if time.time() > end:
                return False
            time.sleep(0.0005)
        if self.deferred:
            disp = self.pair.consumer._services_dispatcher  # noqa: SLF001
            done = threading.Event()
            disp._queue.put((lambda _r: done.set(), None, 'c13-flush'))  # noqa: SLF001
            if not done.wait(max(0.1, end - time.time())):
                return False
        return True

    # -- projections
    def project(self, endpoint):
        if endpoint == 'provider':
            mdib = self.projector.project(self.pair.mdib)
            subs = []
            for name, mgr in sorted(self.pair.provider._subscriptions_managers.items()):  # noqa: SLF001
                for s in mgr._subscriptions.objects:  # noqa: SLF001
                    subs.append((name, s.identifier_uuid.hex, s.notify_to_address, s.end_to_address,
                                 str(s.filter_type.text) if s.filter_type is not None else None,
                                 round((s._started or 0) + (s._expire_seconds or 0), 3),  # noqa: SLF001
                                 s.unsubscribed_at is None, s._is_closed))  # noqa: SLF001
            subs.sort()
            return (_freeze(mdib), tuple(subs))
        mdib = self.projector.project(self.pair.cmdib)
        subs = []
        for key, s in self.pair.consumer.subscription_mgr.subscriptions.items():
            subs.append((key, s.is_subscribed, round(s.expires_at, 3), str(s.end_status), str(s.end_reason),
                         s.granted_expires))
        subs.sort()
        return (_freeze(mdib), tuple(subs))

    def stop(self):
        try:
            self.pair.stop()
        except Exception:  # noqa: BLE001
            pass


def _freeze(x):
    if isinstance(x, dict):
        return tuple(sorted((k, _freeze(v)) for k, v in x.items()))
    if isinstance(x, (list, tuple)):
        return tuple(_freeze(v) for v in x)
    return x


# ------------------------------------------------------------------------------------------------ templates
PROVIDER_TARGETS = ['TransferGet', 'Probe', 'GetMetadata', 'Subscribe', 'Renew', 'GetStatus', 'Unsubscribe',
                    'GetMdib', 'GetMdDescription', 'GetMdState', 'GetLocalizedText', 'GetSupportedLanguages',
                    'GetContextStates', 'SetContextState', 'SetValue', 'SetString', 'Activate', 'SetMetricState',
                    'SetAlertState', 'SetComponentState', 'GetContainmentTree']
CONSUMER_TARGETS = ['EpisodicMetricReport', 'EpisodicAlertReport', 'EpisodicComponentReport',
                    'EpisodicOperationalStateReport', 'EpisodicContextReport', 'DescriptionModificationReport',
                    'WaveformStream', 'OperationInvokedReport', 'PeriodicMetricReport', 'SubscriptionEnd']
GET_TARGETS = ['GetWsdl']
# requests whose acceptance destroys the precondition of later valid requests -> fresh system afterwards
DESTRUCTIVE = {'Unsubscribe', 'SubscriptionEnd'}
MUTATING = {'Subscribe', 'Renew', 'Unsubscribe', 'SetContextState', 'SetValue', 'SetString', 'Activate',
            'SetMetricState', 'SetAlertState', 'SetComponentState', 'EpisodicMetricReport', 'EpisodicAlertReport',
            'EpisodicComponentReport', 'EpisodicOperationalStateReport', 'EpisodicContextReport',
            'DescriptionModificationReport', 'WaveformStream', 'OperationInvokedReport', 'PeriodicMetricReport',
            'SubscriptionEnd'}
OPERATION_TARGETS = {'SetContextState', 'SetValue', 'SetString', 'Activate', 'SetMetricState', 'SetAlertState',
                     'SetComponentState'}


class Template:
    def __init__(self, target, endpoint, method, path, data):
        self.target = target
        self.endpoint = endpoint
        self.method = method
        self.path = path
        self.data = data
        self.resp_tag = None      # tag of the first body child of the baseline response ('' = empty response)
        self.implemented = True
        self.has_number = False
        self.has_required = False
        self.empty_body = False

    def as_json(self):
        return {'target': self.target, 'endpoint': self.endpoint, 'method': self.method, 'path': self.path,
                'data': self.data.decode('utf-8')}


def _action_of(data: bytes):
    m = re.search(rb'<wsa:Action>([^<]*)</wsa:Action>', data)
    return m.group(1).decode() if m else None


def capture_templates(sysm: System) -> dict:
    """Drive one real session and take one valid request per request type from the wire log."""
    from sdc11073.xml_types import pm_types
    pair = sysm.pair
    net, cons, mdib = pair.net, pair.consumer, pair.mdib
    out: dict[str, Template] = {}

    def take(target, fn, endpoint='provider', pick=None, settle=True):
        n = len(net.log)
        res = None
        try:
            res = fn()
        except Exception:  # noqa: BLE001  (e.g. 'not implemented' fault)
            pass
        if settle:
            if hasattr(res, 'result') and hasattr(res, 'done'):
                try:
                    res.result(timeout=5)
                except Exception:  # noqa: BLE001
                    pass
            if not sysm.quiesce():
                raise MachineryError(f'template {target}: system did not quiesce')
        dst = '127.0.0.1:10001' if endpoint == 'provider' else '127.0.0.1:10002'
        wires = [w for w in net.log[n:] if w.dst == dst and w.kind == 'post' and (pick is None or pick(w))]
        if not wires:
            raise MachineryError(f'template {target}: no message seen on the wire')
        w = wires[0]
        out[target] = Template(target, endpoint, 'POST', w.path, w.data)
        return net.log[n:]

    def act(suffix):
        return lambda w: (_action_of(w.data) or '').endswith(suffix)

    # messages of the set-up phase (already in the log)
    for w in net.log:
        a = _action_of(w.data) if w.data else None
        if a is None:
            continue
        if a.endswith('/transfer/Get') and 'TransferGet' not in out:
            out['TransferGet'] = Template('TransferGet', 'provider', 'POST', w.path, w.data)
        elif a.endswith('/mex/GetMetadata/Request') and 'GetMetadata' not in out and w.path.endswith('/Get'):
            out['GetMetadata'] = Template('GetMetadata', 'provider', 'POST', w.path, w.data)
        elif a.endswith('/eventing/Subscribe') and 'Subscribe' not in out and w.path.endswith('/StateEvent'):
            data = re.sub(rb'<wse:Expires>[^<]*</wse:Expires>', b'<wse:Expires>PT1H</wse:Expires>', w.data)
            out['Subscribe'] = Template('Subscribe', 'provider', 'POST', w.path, data)
    take('Probe', cons.send_probe, pick=act('/Probe'))
    subs = list(cons.subscription_mgr.subscriptions.values())
    sub_ops = [s for s in subs if 'OperationInvokedReport' in str(s._filter_text)][0]  # noqa: SLF001
    take('Renew', lambda: sub_ops.renew(3600), pick=act('/eventing/Renew'))
    take('GetStatus', sub_ops.get_status, pick=act('/eventing/GetStatus'))
    # Unsubscribe: the GetStatus request with the other action and body (an Unsubscribe call would end the subscription)
    gs = out['GetStatus']
    out['Unsubscribe'] = Template('Unsubscribe', 'provider', 'POST', gs.path,
                                  gs.data.replace(b'/eventing/GetStatus<', b'/eventing/Unsubscribe<')
                                  .replace(b'wse:GetStatus', b'wse:Unsubscribe'))
    get = cons.client('Get')
    take('GetMdib', get.get_mdib)
    take('GetMdDescription', lambda: get.get_md_description(['mds0']))
    take('GetMdState', lambda: get.get_md_state(['mds0']))
    loc = cons.client('Localization')
    take('GetLocalizedText', loc.get_localized_texts)
    take('GetSupportedLanguages', loc.get_supported_languages)
    ctx = cons.client('Context')
    take('GetContextStates', ctx.get_context_states)
    prop = ctx.mk_proposed_context_object('PC.mds0')
    prop.CoreData.Givenname = 'Max'
    log = take('SetContextState', lambda: ctx.set_context_state('opSetPatCtx', [prop]), pick=act('/SetContextState'))
    _take_notification(out, log, 'EpisodicContextReport')
    _take_notification(out, log, 'OperationInvokedReport')
    sets = cons.client('Set')
    log = take('SetValue', lambda: sets.set_numeric_value('numeric.ch0.vmd1_sco_0', Decimal('42')),
               pick=act('/SetValue'))
    _take_notification(out, log, 'EpisodicMetricReport')
    take('SetString', lambda: sets.set_string('string.ch0.vmd1_sco_0', 'hello'), pick=act('/SetString'))
    log = take('Activate', lambda: sets.activate('AP__ON', []), pick=act('/Activate'))
    _take_notification(out, log, 'EpisodicAlertReport')
    mst = pair.cmdib.states.descriptor_handle.get_one('numeric.ch0.vmd1').mk_copy()
    take('SetMetricState', lambda: sets.set_metric_state('numeric.ch0.vmd1_sco_0', [mst]), pick=act('/SetMetricState'))
    ast = pair.cmdib.states.descriptor_handle.get_one('as0.mds0_rem').mk_copy()
    take('SetAlertState', lambda: sets.set_alert_state('as0.mds0_rem_dele', ast), pick=act('/SetAlertState'))
    cst = pair.cmdib.states.descriptor_handle.get_one('ch0.vmd1').mk_copy()
    take('SetComponentState', lambda: sets.set_component_state('as0.mds0_rem_dele', [cst]),
         pick=act('/SetComponentState'))
    take('GetContainmentTree', lambda: cons.client('ContainmentTree').get_containment_tree(['mds0']))
    # notifications
    n = len(net.log)
    with mdib.component_state_transaction() as tr:
        tr.get_state('ch0.vmd1').OperatingHours = 5
    with mdib.operational_state_transaction() as tr:
        tr.get_state('AP__ON').OperatingMode = pm_types.OperatingMode.NA
    with mdib.descriptor_transaction() as tr:
        tr.get_descriptor('ch0.vmd1').SafetyClassification = pm_types.SafetyClassification.MED_B
    rt_handle = [d.Handle for d in mdib.descriptions.objects if 'RealTimeSampleArray' in type(d).__name__][0]
    with mdib.rt_sample_state_transaction() as tr:
        st = tr.get_state(rt_handle)
        if st.MetricValue is None:
            st.mk_metric_value()
        st.MetricValue.Samples = [Decimal(1), Decimal(2)]
    log = net.log[n:]
    for name in ('EpisodicComponentReport', 'EpisodicOperationalStateReport', 'DescriptionModificationReport',
                 'WaveformStream'):
        _take_notification(out, log, name)
    em = out['EpisodicMetricReport']
    out['PeriodicMetricReport'] = Template('PeriodicMetricReport', 'consumer', 'POST', em.path,
                                           em.data.replace(b'EpisodicMetricReport', b'PeriodicMetricReport'))
    # SubscriptionEnd for the operation-invoked subscription, as the provider would send it
    end_path = '/' + sub_ops.end_to_url.split('/', 3)[3]
    end = (f'<?xml version=\'1.0\' encoding=\'UTF-8\'?>\n<s12:Envelope xmlns:wse="{WSE}" xmlns:s12="{S12}" '
           f'xmlns:wsa="{WSA}"><s12:Header><wsa:To>{sub_ops.end_to_url}</wsa:To>'
           f'<wsa:Action>{WSE}/SubscriptionEnd</wsa:Action>'
           '<wsa:MessageID>urn:uuid:5a7b622d-7fe0-4554-97e8-79500e3e5911</wsa:MessageID></s12:Header><s12:Body>'
           '<wse:SubscriptionEnd><wse:SubscriptionManager>'
           f'<wsa:Address>http://127.0.0.1:10001/{P_PREFIX}/Set</wsa:Address></wse:SubscriptionManager>'
           '<wse:Status>http://schemas.xmlsoap.org/ws/2004/08/eventing/SourceShuttingDown</wse:Status>'
           '<wse:Reason xml:lang="en-US">Event source going off line.</wse:Reason></wse:SubscriptionEnd>'
           '</s12:Body></s12:Envelope>').encode()
    out['SubscriptionEnd'] = Template('SubscriptionEnd', 'consumer', 'POST', end_path, end)
    out['GetWsdl'] = Template('GetWsdl', 'provider', 'GET', f'/{P_PREFIX}/Get/?wsdl', b'')
    missing = [t for t in PROVIDER_TARGETS + CONSUMER_TARGETS + GET_TARGETS if t not in out]
    if missing:
        raise MachineryError(f'no template for {missing}')
    for t in out.values():
        if t.method == 'POST':
            t.has_number = _find_number(etree.fromstring(t.data)) is not None
            t.has_required = _find_required(etree.fromstring(t.data)) is not None
            body = etree.fromstring(t.data).find(f'{{{S12}}}Body')
            t.empty_body = len(body) == 0
    return out


def _take_notification(out, log, name):
    for w in log:
        if w.dst == '127.0.0.1:10002' and (_action_of(w.data) or '').endswith('/' + name):
            out[name] = Template(name, 'consumer', 'POST', w.path, w.data)
    if name not in out:
        raise MachineryError(f'template {name}: notification not seen on the wire')


# ------------------------------------------------------------------------------------------------ mutations
NUM_ATTRS = ('MdibVersion', 'StateVersion', 'DescriptorVersion', 'InstanceId')


def _body(root):
    return root.find(f'{{{S12}}}Body')


def _find_number(root):
    """-> ('attr', element, name) | ('text', element) | ('duration', element) | None."""
    body = _body(root)
    if body is None:
        return None
    for el in body.iter():
        if not isinstance(el.tag, str):
            continue
        for name in NUM_ATTRS:
            if el.get(name) is not None:
                return ('attr', el, name)
    for el in body.iter(f'{{{MSG}}}RequestedNumericValue'):
        return ('text', el)
    for el in body.iter(f'{{{WSE}}}Expires'):
        return ('duration', el)
    return None


def _find_required(root):
    """Something the schema demands inside the body element: -> ('elem', el) | ('attr', el, name) | None."""
    body = _body(root)
    if body is None or len(body) == 0:
        return None
    first = body[0]
    for tag in (f'{{{MSG}}}OperationHandleRef', f'{{{WSE}}}Delivery', f'{{{WSE}}}Status'):
        el = first.find(tag)
        if el is not None:
            return ('elem', el)
    if first.get('SequenceId') is not None:
        return ('attr', first, 'SequenceId')
    return None


OTHER_ACTION = {
    'provider': 'http://standards.ieee.org/downloads/11073/11073-20701-2018/GetService/GetMdDescription',
    'consumer': 'http://standards.ieee.org/downloads/11073/11073-20701-2018/StateEventService/EpisodicAlertReport',
}
OTHER_ACTION_ALT = {
    'provider': 'http://standards.ieee.org/downloads/11073/11073-20701-2018/SetService/SetString',
    'consumer': 'http://standards.ieee.org/downloads/11073/11073-20701-2018/SetService/OperationInvokedReport',
}


def mutate_envelope(tpl: Template, cls: str, v: int) -> bytes:
    """Structure-aware mutation of the valid request of a template."""
    if cls == 'valid':
        return tpl.data
    root = etree.fromstring(tpl.data)
    header = root.find(f'{{{S12}}}Header')
    body = _body(root)
    action = header.find(f'{{{WSA}}}Action')
    if cls == 'no_header':
        root.remove(header)
    elif cls == 'no_action':
        header.remove(action)
    elif cls == 'wrong_action':
        cands = [OTHER_ACTION[tpl.endpoint], OTHER_ACTION_ALT[tpl.endpoint]]
        cands = [c for c in cands if c != action.text]
        action.text = cands[v % len(cands)]
    elif cls == 'unknown_action':
        action.text = ('urn:verif:c13:no-such-action', action.text + 'X', '')[v % 3]
    elif cls == 'no_body':
        root.remove(body)
    elif cls == 'empty_body':
        for ch in list(body):
            body.remove(ch)
    elif cls == 'dup_body_elem':
        if v % 2 == 0:
            body.append(copy.deepcopy(body[0]))
        else:
            root.append(copy.deepcopy(body))  # the whole Body twice
    elif cls == 'renamed_body_elem':
        q = etree.QName(body[0].tag)
        body[0].tag = (f'{{{q.namespace}}}{q.localname}X', f'{{urn:verif:c13}}{q.localname}')[v % 2]
    elif cls == 'no_msgid':
        mid = header.find(f'{{{WSA}}}MessageID')
        if v % 2 == 0:
            header.remove(mid)
        else:
            mid.text = ''
    elif cls in ('addr_replyto', 'addr_faultto', 'addr_from'):
        tag = {'addr_replyto': 'ReplyTo', 'addr_faultto': 'FaultTo', 'addr_from': 'From'}[cls]
        for old in header.findall(f'{{{WSA}}}{tag}'):
            header.remove(old)
        epr = etree.SubElement(header, f'{{{WSA}}}{tag}')
        addr = etree.SubElement(epr, f'{{{WSA}}}Address')
        addr.text = ('http://192.0.2.7:6464/reply/here', 'urn:uuid:3e1ad4b0-7a1c-4b6e-9f0e-0123456789ab',
                     'http://www.w3.org/2005/08/addressing/none')[v % 3]
    elif cls == 'addr_foreign_header':
        el = etree.SubElement(header, '{urn:verif:c13:headers}Trace')
        el.text = 'x' * (1 + 40 * (v % 3))
        if v % 2:
            el.set(f'{{{S12}}}mustUnderstand', 'false')
    elif cls in ('num_huge', 'num_negative', 'num_zero'):
        found = _find_number(root)
        if found is None:
            raise MachineryError(f'{tpl.target}: no number to mutate')
        if cls == 'num_huge':
            val = ('9' * 40, str(2 ** 64 - 1), str(2 ** 63))[v % 3]
            dur = ('PT' + '9' * 40 + 'S', 'P99999999Y', 'PT1E400S')[v % 3]
        elif cls == 'num_zero':
            val = ('0', '0.0', '00')[v % 3]
            dur = ('PT0S', 'P0D', 'PT0.0S')[v % 3]
        else:
            val = ('-1', '-' + '9' * 40, '-0')[v % 3]
            dur = ('-PT1S', '-P99999999Y', 'PT-1S')[v % 3]
        if found[0] == 'attr':
            found[1].set(found[2], val)
        elif found[0] == 'text':
            found[1].text = val
        else:
            found[1].text = dur
    elif cls == 'del_required':
        found = _find_required(root)
        if found is None:
            raise MachineryError(f'{tpl.target}: nothing required to delete')
        if found[0] == 'elem':
            found[1].getparent().remove(found[1])
        else:
            del found[1].attrib[found[2]]
    else:
        raise MachineryError(f'unknown envelope class {cls}')
    return etree.tostring(root, xml_declaration=True, encoding='UTF-8')


def _with_doctype(data: bytes, subset: str, system: str | None = None) -> bytes:
    decl, rest = data.split(b'\n', 1) if data.startswith(b'<?xml') else (b"<?xml version='1.0' encoding='UTF-8'?>", data)
    ext = f' SYSTEM "{system}"' if system else ''
    sub = f' [{subset}]' if subset else ''
    return decl + f'\n<!DOCTYPE s12:Envelope{ext}{sub}>\n'.encode() + rest


def _inject_text(data: bytes, ref: bytes) -> bytes:
    """Put an entity reference into the text of wsa:MessageID (echoed as RelatesTo) ."""
    return data.replace(b'</wsa:MessageID>', ref + b'</wsa:MessageID>', 1)


def _inject_attr(data: bytes, ref: bytes) -> bytes:
    return data.replace(b'<s12:Envelope ', b'<s12:Envelope xmlns:v="urn:verif:c13" v:probe="' + ref + b'" ', 1)


def mutate_xml(data: bytes, cls: str, v: int, rng: random.Random) -> bytes:
    """XML-level class applied to a (valid or envelope-mutated) request document."""
    if cls == 'wf':
        return data
    if cls == 'truncated':
        cut = (len(data) // 2, len(data) - 1, data.find(b'<s12:Body') + 5)[v % 3]
        return data[:cut]
    if cls == 'garbage':
        return (bytes(rng.randrange(256) for _ in range(200)) + b'\xff\xfe\x00<', b'hello world, this is not xml',
                b'\x00' * 64)[v % 3]
    if cls == 'empty':
        return b''
    ent_int = f'<!ENTITY xxe "{MARK_INT}">'
    if cls == 'doctype_text':
        return _inject_text(_with_doctype(data, ent_int), b'&xxe;')
    if cls == 'doctype_attr':
        return _inject_attr(_with_doctype(data, ent_int), b'&xxe;')
    if cls == 'external_entity':
        url = ('file://' + SECRET_FILE, DEAD_URL, 'file://' + SECRET_FILE)[v % 3]
        doc = _with_doctype(data, f'<!ENTITY xxe SYSTEM "{url}">')
        return _inject_attr(doc, b'&xxe;') if v % 3 == 2 else _inject_text(doc, b'&xxe;')
    if cls == 'external_param':
        if v % 3 == 2:
            return _with_doctype(data, '', system=DEAD_URL)
        url = (DEAD_URL, 'file://' + SECRET_FILE)[v % 2]
        return _with_doctype(data, f'<!ENTITY % ext SYSTEM "{url}"> %ext;')
    if cls == 'billion_laughs':
        levels = (4, 8, 6)[v % 3]
        ents = f'<!ENTITY l0 "{MARK_INT}">' + ''.join(
            f'<!ENTITY l{i} "{("&l%d;" % (i - 1)) * 10}">' for i in range(1, levels + 1))
        doc = _with_doctype(data, ents)
        ref = f'&l{levels};'.encode()
        return _inject_attr(doc, ref) if v % 2 == 0 else _inject_text(doc, ref)
    raise MachineryError(f'unknown xml class {cls}')


def encode_body(body: bytes, cls: str, v: int) -> tuple[bytes, list]:
    """Content coding class -> (bytes to be framed, header lines)."""
    if cls == 'none':
        return body, []
    if cls == 'supported':
        from sdc11073.httpserver.compression import CompressionHandler
        alg = 'gzip'
        if v % 2 == 1 and 'x-lz4' in CompressionHandler.available_encodings:
            alg = 'x-lz4'
        return CompressionHandler.compress_payload(alg, body), [('Content-Encoding', alg)]
    if cls == 'unsupported':
        return body, [('Content-Encoding', ('br', 'deflate', 'compress')[v % 3])]
    if cls == 'corrupt':
        z = gzip.compress(body, mtime=0)
        if v % 3 == 0:
            return body + b'not gzip at all', [('Content-Encoding', 'gzip')]
        if v % 3 == 1:
            return z[:max(1, len(z) // 2)], [('Content-Encoding', 'gzip')]
        mid = len(z) // 2
        return z[:mid] + bytes([z[mid] ^ 0xFF, z[mid + 1] ^ 0xFF]) + z[mid + 2:], [('Content-Encoding', 'gzip')]
    raise MachineryError(f'unknown coding class {cls}')


def _chunks(body: bytes, size: int, ext: bytes = b'') -> list[bytes]:
    """The pieces of a valid chunked stream: [size line, data, CRLF]* + [last chunk]."""
    out = []
    for i in range(0, len(body), size):
        part = body[i:i + size]
        out += [f'{len(part):x}'.encode() + ext + b'\r\n', part, b'\r\n']
    out.append(b'0\r\n\r\n')
    return out


def frame_body(coded: bytes, cls: str, v: int) -> tuple[bytes, list]:
    """Framing class -> (bytes after the header section, header lines)."""
    n = len(coded)
    te = [('Transfer-Encoding', 'chunked')]
    size = (64, 1000, 7)[v % 3]
    if cls == 'cl_exact':
        return coded, [('Content-Length', str(n))]
    if cls == 'cl_short':
        return coded, [('Content-Length', str((n // 2, n - 1, 0)[v % 3]))]
    if cls == 'cl_long':
        return coded, [('Content-Length', str(n + (10, 100000, 1)[v % 3]))]
    if cls == 'cl_negative':
        return coded, [('Content-Length', ('-1', '-5', '-' + str(n))[v % 3])]
    if cls == 'cl_nonnumeric':
        return coded, [('Content-Length', ('abc', f'{n}abc', '1e3')[v % 3])]
    if cls == 'cl_absent':
        return coded, ([], [('Content-Length', '')], [('Transfer-Encoding', 'identity')])[v % 3]
    pieces = _chunks(coded, size)
    if cls == 'chunked_ok':
        if v % 3 == 1:
            pieces = _chunks(coded, size, b';a=b')
        return b''.join(pieces), te
    if cls == 'chunked_trunc_size':
        if v % 3 == 0:
            return b''.join(pieces[:-1]), te                       # EOF where the next size line begins
        if v % 3 == 1:
            return b''.join(pieces[:-1]) + b'1f', te               # EOF inside a size line
        return b''.join(pieces[:-1]) + b'0\r\n', te                # last chunk without the final CRLF
    if cls == 'chunked_trunc_data':
        if len(pieces) < 4:
            return pieces[0] + pieces[1][:len(pieces[1]) // 2], te
        if v % 3 == 0:
            return pieces[0] + pieces[1][:len(pieces[1]) // 2], te  # EOF inside the first chunk
        if v % 3 == 1:
            return b''.join(pieces[:-3]) + pieces[-3][:1], te       # EOF inside the last data chunk
        return b''.join(pieces[:2]), te                             # EOF before the CRLF after the data
    if cls == 'chunked_bad_size':
        bad = (b'zz\r\n', b'\r\n', b'1g\r\n')[v % 3]
        return bad + coded + b'\r\n0\r\n\r\n', te
    if cls == 'chunked_neg_size':
        neg = (b'-5\r\n', b'-1\r\n', f'-{n:x}\r\n'.encode())[v % 3]
        return neg + coded + b'\r\n0\r\n\r\n', te
    if cls == 'chunked_huge_ext':
        ext = (b';ext=' + b'a' * 40, b';name="' + b'b' * 300 + b'"', b';x=' + b'c' * 14)[v % 3]
        return b''.join(_chunks(coded, size, ext)), te
    raise MachineryError(f'unknown framing class {cls}')


def make_path(tpl: Template, cls: str, v: int) -> str:
    prefix = P_PREFIX if tpl.endpoint == 'provider' else C_PREFIX
    rest = tpl.path[len(prefix) + 1:]   # '' | '/Service' | '/Service/<id>' | '/Get/?wsdl'
    if cls == 'valid':
        return tpl.path
    if cls == 'unknown_prefix':
        other = C_PREFIX if tpl.endpoint == 'provider' else P_PREFIX
        return '/' + ('deadbeef' * 4, other, 'unknown')[v % 3] + rest
    if cls == 'escaped_prefix':
        return '/' + ('%E2%82%AC', 'x%0D%0AX-Injected:%201', 'caf%E9')[v % 3] + rest
    if cls == 'root':
        return ('/', '/?wsdl', 'http://127.0.0.1:10001/')[v % 3]
    if cls == 'no_path':
        return ('?wsdl', '//', 'http://127.0.0.1:10001')[v % 3]
    if cls == 'unknown_service':
        if tpl.method == 'GET':
            return f'/{prefix}/' + ('Nope/?wsdl', 'Get/Nope', 'Nope')[v % 3]
        if rest == '':
            return f'/{prefix}/' + ('Nope', 'Nope/x', 'get')[v % 3]
        segs = rest.split('/')[1:]
        return f'/{prefix}/' + '/'.join(['Nope', *segs[1:]]) if v % 3 != 1 or tpl.endpoint == 'consumer' \
            else f'/{prefix}'
    if cls == 'extra_segments':
        if tpl.method == 'GET':
            return tpl.path.replace('?wsdl', ('x/?wsdl', 'x/y/?wsdl', '?wsdl&x=1')[v % 3])
        return tpl.path + ('/extra/segments', '/', '/x?y=1#z')[v % 3]
    raise MachineryError(f'unknown path class {cls}')


class Concrete:
    __slots__ = ('body', 'headers', 'method', 'path', 'raw', 'server_chunk', 'xml')


def concretise(tpl: Template, case: dict, v: int, seed: int) -> Concrete:
    """Abstract request -> concrete request (raw bytes for the handler, body/headers/path for do_post)."""
    rng = random.Random(f'{seed}:{case["target"]}:{case["xml"]}:{v}')
    c = Concrete()
    c.method = tpl.method
    c.path = make_path(tpl, case['path'], v)
    c.server_chunk = 0 if v % 2 == 0 else 64
    if tpl.method == 'GET':
        c.xml = b''
        c.body = b''
        c.headers = [('Host', '127.0.0.1:10001')]
        c.raw = f'GET {c.path} HTTP/1.1\r\nHost: 127.0.0.1:10001\r\n\r\n'.encode('latin-1')
        return c
    xml = mutate_envelope(tpl, case['envelope'], v)
    xml = mutate_xml(xml, case['xml'], v, rng)
    c.xml = xml
    host = '127.0.0.1:10001' if tpl.endpoint == 'provider' else '127.0.0.1:10002'
    base = [('Host', host), ('Content-Type', 'application/soap+xml; charset=utf-8')]
    if v % 2 == 1:
        base.append(('Accept-Encoding', 'gzip'))
    if case['via'] == 'dopost':
        c.body = xml
        c.headers = [*base, ('Content-Length', str(len(xml)))]
        c.raw = b''
        return c
    coded, h1 = encode_body(xml, case['coding'], v)
    framed, h2 = frame_body(coded, case['framing'], v)
    c.body = framed
    c.headers = base + h1 + h2
    head = f'POST {c.path} HTTP/1.1\r\n' + ''.join(f'{k}: {val}\r\n' for k, val in c.headers) + '\r\n'
    c.raw = head.encode('latin-1') + framed
    return c


# ------------------------------------------------------------------------------------------------ responses
def _dechunk(data: bytes):
    out = bytearray()
    pos = 0
    while True:
        eol = data.find(b'\r\n', pos)
        if eol < 0:
            return None
        try:
            n = int(data[pos:eol].split(b';')[0], 16)
        except ValueError:
            return None
        pos = eol + 2
        if n == 0:
            return bytes(out)
        out += data[pos:pos + n]
        pos += n + 2


def parse_http_response(raw: bytes):
    """First response on the connection: -> (status, headers, body) or None."""
    if not raw.startswith(b'HTTP/'):
        return None
    idx = raw.find(b'\r\n\r\n')
    if idx < 0:
        return None
    lines = raw[:idx].decode('latin-1').split('\r\n')
    try:
        status = int(lines[0].split(' ', 2)[1])
    except (IndexError, ValueError):
        return None
    hdr = {}
    for ln in lines[1:]:
        k, _, val = ln.partition(':')
        hdr[k.strip().lower()] = val.strip()
    rest = raw[idx + 4:]
    if 'chunked' in hdr.get('transfer-encoding', '').lower():
        body = _dechunk(rest)
        if body is None:
            return status, hdr, None
    elif 'content-length' in hdr:
        try:
            body = rest[:int(hdr['content-length'])]
        except ValueError:
            return status, hdr, None
    else:
        body = rest
    enc = hdr.get('content-encoding')
    if enc and body:
        try:
            body = zlib.decompress(body, 16 + zlib.MAX_WBITS) if enc == 'gzip' else None
        except zlib.error:
            body = None
    return status, hdr, body


def _second_response(raw: bytes) -> bool:
    """Did the server write anything behind the first complete response (another response, an error page ...)?"""
    import io
    from http.client import HTTPResponse

    class _KeepOpen(io.BytesIO):
        def close(self):
            pass
    fp = _KeepOpen(raw)

    class _S:
        def makefile(self, mode, *a, **kw):  # noqa: ARG002
            return fp
    try:
        resp = HTTPResponse(_S(), method='POST')
        resp.begin()
        resp.read()
    except Exception:  # noqa: BLE001
        return False
    return raw[fp.tell():].strip() != b''      # anything at all behind the first complete response


def classify_body(body, tpl: Template, status: int) -> tuple[str, str]:
    """-> (class, detail): proper | fault | empty | soap_other | text.

    proper = the response of this request type (for request types answered without content: an empty body
    together with a success status).
    """
    if body is None:
        return 'text', 'undecodable'
    if isinstance(body, str):
        body = body.encode('utf-8')
    if len(body) == 0:
        return ('proper', 'empty') if tpl.resp_tag == '' and 200 <= status < 300 else ('empty', '')
    try:
        root = etree.fromstring(body, parser=etree.XMLParser(resolve_entities=False, no_network=True))
    except etree.XMLSyntaxError:
        return 'text', body[:60].decode('latin-1')
    if root.tag != f'{{{S12}}}Envelope':
        tag = str(root.tag)
        return ('proper', tag) if tpl.resp_tag == tag else ('text', tag)
    b = root.find(f'{{{S12}}}Body')
    if b is None or len(b) == 0:
        return ('proper', 'emptybody') if tpl.resp_tag == 'emptybody' else ('soap_other', 'emptybody')
    first = b[0]
    if first.tag == f'{{{S12}}}Fault':
        code = first.find(f'{{{S12}}}Code/{{{S12}}}Value')
        text = first.find(f'{{{S12}}}Reason/{{{S12}}}Text')
        if len(b) == 1 and code is not None and (code.text or '').strip() and text is not None:
            return 'fault', (text.text or '')[:120]
        return 'soap_other', 'malformed fault'
    tag = str(first.tag)
    return ('proper', tag) if tpl.resp_tag == tag else ('soap_other', tag)


def _where(ex) -> str:
    """Innermost function of sdc11073 on the traceback of an escaped exception: 'module.function'."""
    import traceback
    where = ''
    for fr in traceback.extract_tb(ex.__traceback__):
        if 'sdc11073' in fr.filename:
            where = os.path.splitext(os.path.basename(fr.filename))[0] + '.' + fr.name
    return where


def _marker_in_tree(root) -> bool:
    for el in root.iter():
        if not isinstance(el.tag, str):
            continue
        for s in (el.text, el.tail, *el.attrib.values()):
            if s and (MARK_INT in s or MARK_FILE in s):
                return True
    return False


# ------------------------------------------------------------------------------------------------ execution
class Executor:
    """Runs concretisations on a System in a worker thread with a hard timeout."""

    HARD_TIMEOUT = 30.0

    def __init__(self):
        self.systems = {'sync': System(False)}
        self.current = 'sync'
        self.templates = None
        self.rebuilds = 0
        self._handler_cls = None
        self._jobs: queue.Queue = queue.Queue()
        self._thread = None
        self.state_cache = {}

    def handler_class(self):
        if self._handler_cls is None:
            from sdc11073.httpserver.httprequesthandler import DispatchingRequestHandler

            class QuietHandler(DispatchingRequestHandler):
                def log_message(self, format, *args):  # noqa: A002
                    pass

            self._handler_cls = QuietHandler
        return self._handler_cls

    @property
    def sysm(self) -> System:
        return self.systems[self.current]

    def select(self, key):
        """'sync': consumer dispatches notifications in the calling thread; 'deferred': the consumer's default
        DispatchKeyRegistryDeferred (queue + worker thread)."""
        if key not in self.systems:
            # 'lenient': provider and consumer created with validate=False (schema validation switched off)
            self.systems[key] = System(key == 'deferred', validate=key != 'lenient')
        self.current = key

    def rebuild(self):
        self.sysm.stop()
        self.systems[self.current] = System(self.current == 'deferred', validate=self.current != 'lenient')
        self.rebuilds += 1
        self.state_cache = {k: v for k, v in self.state_cache.items() if k[0] != self.current}

    def close(self):
        for sysm in self.systems.values():
            sysm.stop()
        self._jobs.put(None)

    # -- worker thread with hard timeout
    def _loop(self, jobs):
        while True:
            job = jobs.get()
            if job is None:
                return
            fn, box, done = job
            try:
                box['value'] = fn()
            except BaseException as ex:  # noqa: BLE001
                box['error'] = ex
            done.set()

    def in_thread(self, fn):
        if self._thread is None or not self._thread.is_alive():
            self._jobs = queue.Queue()
            self._thread = threading.Thread(target=self._loop, args=(self._jobs,), daemon=True, name='c13-case')
            self._thread.start()
        box, done = {}, threading.Event()
        self._jobs.put((fn, box, done))
        if not done.wait(self.HARD_TIMEOUT):
            self._thread = None   # abandon the stuck thread
            return 'timeout', None
        if 'error' in box:
            return 'error', box['error']
        return 'ok', box['value']

    # -- one concretisation
    def _run_handler(self, endpoint, conc: Concrete):
        server = self.sysm.servers[endpoint]
        server.chunk_size = conc.server_chunk
        sock = FakeSock(conc.raw)
        info = {'escaped': 'none', 'spin': False, 'detail': ''}
        try:
            self.handler_class()(sock, ('127.0.0.1', 40000), server)
        except Spin as ex:
            info['spin'] = True
            info['detail'] = str(ex)
        except Exception as ex:  # noqa: BLE001  (socketserver would print a traceback and drop the connection)
            info['escaped'] = type(ex).__name__
            info['detail'] = str(ex)[:200]
            info['where'] = _where(ex)
        info['unbounded'] = bool(sock.rfile.unbounded)
        info['reads'] = sock.rfile.calls
        info['raw_response'] = bytes(sock.out)
        return info

    def _run_dopost(self, endpoint, conc: Concrete):
        conv = self.sysm.converters[endpoint]
        headers = http.client.HTTPMessage()
        for k, val in conc.headers:
            headers[k] = val
        info = {'escaped': 'none', 'spin': False, 'detail': '', 'unbounded': False, 'reads': 0, 'raw_response': b''}
        try:
            status, reason, body = conv.do_post(headers, conc.path, ('127.0.0.1', 40000), conc.xml)
            info['result'] = (status, reason, body)
        except Exception as ex:  # noqa: BLE001
            info['escaped'] = type(ex).__name__
            info['detail'] = str(ex)[:200]
            info['where'] = _where(ex)
        return info

    def state(self, endpoint):
        key = (self.current, endpoint)
        if key not in self.state_cache:
            self.state_cache[key] = self.sysm.project(endpoint)
        return self.state_cache[key]

    def execute(self, tpl: Template, case: dict, conc: Concrete, v: int = 0) -> dict:
        """Run one concrete request; return the `actual` record."""
        self.select('lenient' if case.get('lenient') else
                    'deferred' if tpl.endpoint == 'consumer' and v % 2 == 1 else 'sync')
        sysm = self.sysm
        endpoint = tpl.endpoint
        before = self.state(endpoint)
        sysm.events.clear()
        sysm.parsed.clear()
        del RESOLVER_CALLS[:]
        guard = SocketGuard()
        runner = self._run_handler if case['via'] == 'handler' else self._run_dopost

        def job():
            with guard:
                return runner(endpoint, conc)

        t0 = time.perf_counter()
        how, info = self.in_thread(job)
        elapsed = time.perf_counter() - t0
        actual = {'status': 0, 'body': 'none', 'extra_response': False, 'escaped': 'none', 'spin': False, 'timeout': False,
                  'unbounded_read': False, 'expanded': False, 'resolver_calls': 0, 'socket_attempts': 0,
                  'state_same': True, 'handled': False, 'validated': False, 'detail': '', 'where': '',
                  'dispatch': self.current,
                  'ms': int(elapsed * 1000)}
        if how == 'timeout':
            actual['timeout'] = True
            actual['detail'] = f'no result within {self.HARD_TIMEOUT}s'
            self.dirty_rebuild()
            return actual
        if how == 'error':   # exception in the harness part of the job
            raise MachineryError(f'harness error while executing {case}: {info!r}')
        quiet = sysm.quiesce()
        events = list(sysm.events)
        actual['escaped'] = info['escaped']
        actual['where'] = info.get('where', '')
        actual['spin'] = info['spin']
        actual['detail'] = info['detail']
        actual['unbounded_read'] = info['unbounded']
        status, body = 0, None
        if case['via'] == 'handler':
            parsed = parse_http_response(info['raw_response'])
            actual['extra_response'] = _second_response(info['raw_response'])
            if parsed is not None:
                status, _hdr, body = parsed
                actual['status'] = status
                cls, detail = classify_body(body, tpl, status)
                actual['body'] = cls
                actual['detail'] = actual['detail'] or detail
        elif 'result' in info:
            status, _reason, body = info['result']
            actual['status'] = status if isinstance(status, int) else -1
            cls, detail = classify_body(body, tpl, actual['status'])
            actual['body'] = cls
            actual['detail'] = actual['detail'] or detail
        actual['handled'] = 'handled' in events
        # validated before handled: the last parse event before the handler ran must be a validating one
        if actual['handled']:
            actual['validated'] = 'validated' in events[:events.index('handled')]
        else:
            actual['validated'] = 'validated' in events
        expanded = any(_marker_in_tree(m.p_msg._doc_root) for m in sysm.parsed)  # noqa: SLF001
        if body:
            b = body if isinstance(body, bytes) else str(body).encode()
            expanded = expanded or MARK_INT.encode() in b or MARK_FILE.encode() in b
        actual['expanded'] = expanded
        actual['resolver_calls'] = len(RESOLVER_CALLS)
        actual['socket_attempts'] = len(guard.attempts)
        if not quiet:
            actual['timeout'] = True
            actual['detail'] = 'system did not quiesce'
            self.dirty_rebuild()
            return actual
        after = sysm.project(endpoint)
        actual['state_same'] = after == before
        self.state_cache[(self.current, endpoint)] = after
        if endpoint == 'provider' and (actual['handled'] or not actual['state_same']):
            self.state_cache.pop((self.current, 'consumer'), None)   # notifications may have reached the consumer
        if not actual['state_same']:
            sysm.accepted_mutations += 1
        accepted = actual['body'] == 'proper' and 200 <= actual['status'] < 300
        if (accepted and tpl.target in DESTRUCTIVE) or sysm.accepted_mutations >= 150:
            self.dirty_rebuild()
        return actual

    def dirty_rebuild(self):
        self.rebuild()

    # -- baselines
    def baseline(self, templates: dict):
        """Run every valid template once through do_post and fix what the proper response looks like."""
        self.templates = templates
        for tpl in sorted(templates.values(), key=lambda t: t.target in DESTRUCTIVE):
            if tpl.method == 'GET':
                conv = self.sysm.converters[tpl.endpoint]
                headers = http.client.HTTPMessage()
                headers['Host'] = '127.0.0.1:10001'
                status, _r, body, _ct = conv.do_get(headers, tpl.path, ('127.0.0.1', 1))
                root = etree.fromstring(body)
                tpl.resp_tag = str(root.tag)
                if status != 200:
                    raise MachineryError(f'baseline {tpl.target}: status {status}')
                continue
            headers = http.client.HTTPMessage()
            headers['Host'] = '127.0.0.1:10001' if tpl.endpoint == 'provider' else '127.0.0.1:10002'
            conv = self.sysm.converters[tpl.endpoint]
            status, _reason, body = conv.do_post(headers, tpl.path, ('127.0.0.1', 1), tpl.data)
            self.sysm.quiesce()
            if len(body) == 0:
                tpl.resp_tag = ''
            else:
                root = etree.fromstring(body)
                b = root.find(f'{{{S12}}}Body')
                tpl.resp_tag = 'emptybody' if len(b) == 0 else str(b[0].tag)
            if tpl.resp_tag == f'{{{S12}}}Fault':
                tpl.implemented = False
                tpl.resp_tag = None
            elif not 200 <= status < 300:
                raise MachineryError(f'baseline {tpl.target}: status {status} without fault')
        self.rebuild()
