#!/bin/bash
# tools_mutant.sh <patch.diff> <ID> [<ID> ...] : run quick checks against a scratch copy of /repo with the patch applied.
# (used while other jobs need the real /repo untouched; evidence and replays of these runs go to a scratch dir)
set -u
PATCH="$1"; shift
S=$(mktemp -d /tmp/mutrepo_XXXX)
rsync -a --exclude .git --exclude '*.log' --exclude __pycache__ /repo/ "$S/" 
( cd "$S" && git init -q . && git apply --whitespace=nowarn "$PATCH" ) || { echo "PATCH DOES NOT APPLY"; rm -rf "$S"; exit 3; }
for ID in "$@"; do
  echo "=== $ID against $(basename "$PATCH") ==="
  VERIF_REPO="$S" VERIF_EVIDENCE_DIR="$S/_evidence" VERIF_REPLAY_DIR="$S/_replays" timeout 1500 /verif/check "$ID" --tier "${TIER:-quick}" 2>&1 | grep -E "violation x|VIOLATION|KNOWN|MACHINERY|quick:|thorough:" | cut -c1-400 | head -12
  echo "rc=${PIPESTATUS[0]}"
done
rm -rf "$S"
