#!/venv/bin/python
"""Show a replay file of the mirror family."""
import json, sys
d = json.load(open(sys.argv[1]))
r = d['replay']; tr = r['trace']; li = r['failing_record']
print(d['what'])
start = li
while start > 0 and tr[start]['act'] != 'Begin':
    start -= 1
for rec in tr[max(start,0):li+1]:
    print('  ', {k: v for k, v in rec.items() if k not in ('post','cpost','reports','fired','published_same','model_res')})
rec = tr[li]; pre = tr[start]['post']
print('  fired', rec['fired'])
for rep in rec['reports']:
    print('  rep', rep['kind'], rep['mver'], rep['valid'], [(e['k'],e['h'],e['mod'],e['ver'],e['tok'],e['mds'],e['own'],e['parent']) for e in rep['entries']])
post, cpost = rec['post'], rec['cpost']
for sec in ('D','S','C'):
    for h in post[sec]:
        if post[sec][h] != cpost[sec][h]:
            print(f'  MIRROR {sec}[{h}]: prov {post[sec][h]}\n           cons {cpost[sec][h]}')
        if pre[sec][h] != post[sec][h]:
            print(f'  change {sec}[{h}]: {pre[sec][h]} -> {post[sec][h]}')
for k in ('mver','rest','seq','inst','agree','refall'):
    if post[k] != cpost[k]: print(f'  MIRROR {k}: {post[k]} vs {cpost[k]}')
