#!/bin/bash
cd /verif/specs
export OUT_FILE=/verif/.c14tmp/out.json
exec java -XX:+UseParallelGC -Xmx8g -cp /opt/veriftools/tla/tla2tools.jar:/opt/veriftools/tla/CommunityModules-deps.jar tlc2.TLC -metadir /verif/.c14tmp/meta -noGenerateSpecTE -workers 1 -config DiscoveryMatch_scope_thorough.cfg -deadlock DiscoveryMatchMC
