#!/bin/bash
# offline setup: nothing to build; verify the tools the checks need are present
set -e
java -version 2>&1 | head -1
test -f /opt/veriftools/tla/tla2tools.jar
/venv/bin/python -c "import lxml, sdc11073; print('python ok')"
mkdir -p /verif/evidence /verif/replays
